package main

import "time"

func init() {
	register(&Prop{
		ID: "C07", Level: "exploration", Floor: 6000,
		Rule: "a case = one registration message (a vector of 24 factor levels: message fields, registrar overrides, station configuration, liveness verdict, delivery count) " +
			"pushed through the real parseRegMessage + ingestRegistration (monitor table) or the real HandleRegUpdates worker pool (monitor pipeline), or one delivery of a reload sequence " +
			"(monitor reload: deliveries interleaved with configuration reloads through the real ParseConfig + OnReload, judged against the configuration in force); " +
			"it is non-trivial when the reference expects admission for one of its families or the station actually built a registration for a family on which at most one " +
			"message-level condition fails (so the verdict was made by the ingest procedure, not by absent support flags); distinct_nontrivial = distinct factor vectors of that kind",
		Assumptions: []string{
			"'complete' = registration payload present; a message without shared secret or source, a registrant address that is not 4/16 bytes (IPv6 half), an IPv6 override that is not 16 bytes and the IPv6 half of an all-IPv4 generation are recorded but not judged (the statement is silent)",
			"'pre-scanned by another station' = the prescanned flag of the message; the covert policy is exercised with literal addresses and a blocklisted domain only (name resolution is C06's subject)",
			"the absence of a share request is concluded only after a stack scan shows no goroutine in tryShareRegistrationOverAPI / executeHTTPRequest / handleConnectingTpReg; a batch that does not quiesce within 60 s is inconclusive",
			"reload: address family toggles, sharing and transports are not reloadable (OnReload documents that) and stay constant within a sequence; whether a reload re-opens the decision on a registration the station already holds is not judged",
			"announcements are attributed by strict sequencing (table) or by phantoms pinned through registrar overrides (pipeline); the pipeline is fed so that the station's load shedding never triggers",
		},
		Stages: []Stage{
			{Name: "realprobe", Pkg: "./pkg/station/lib", Run: "^TestVerifC07RealProbe$", Drivers: []string{"lib"}, Files: []string{"_c07_realprobe"}, Netns: true, TimeoutQ: 5 * time.Minute, TimeoutT: 10 * time.Minute},
			{Name: "table", Pkg: "./pkg/station/lib", Run: "^TestVerifC07Table$", Drivers: []string{"lib"}, TimeoutQ: 10 * time.Minute, TimeoutT: 40 * time.Minute},
			{Name: "reload", Pkg: "./pkg/station/lib", Run: "^TestVerifC07Reload$", Drivers: []string{"lib"}, TimeoutQ: 10 * time.Minute, TimeoutT: 40 * time.Minute},
			{Name: "pipeline", Pkg: "./pkg/station/lib", Run: "^TestVerifC07Pipeline$", Drivers: []string{"lib"}, TimeoutQ: 10 * time.Minute, TimeoutT: 40 * time.Minute},
			{Name: "stale", Pkg: "./pkg/station/lib", Run: "^TestVerifC07StaleActivation$", Drivers: []string{"lib"}, Files: []string{"_c07stale_", "_c10_"}, Exports: []string{"cdtls", "lib"}, TimeoutQ: 10 * time.Minute, TimeoutT: 40 * time.Minute},
		},
	})
}
