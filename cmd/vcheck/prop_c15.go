package main

import (
	"fmt"
	"time"
)

// C15 – every encoder in the registration channels is inverted exactly by its decoder.
// One stage per repository package; all oracles are online (round-trip equality in the drivers).
func init() {
	st := func(name, pkg, run string) Stage {
		return Stage{Name: name, Pkg: "./" + pkg, Run: run, Drivers: []string{name},
			TimeoutQ: 10 * time.Minute, TimeoutT: 40 * time.Minute}
	}
	register(&Prop{
		ID: "C15", Level: "exploration", Floor: 20000,
		Rule: "a case = one value handed to a real encoder (tag × obfuscator × key pair; payload length × framing; label partition → NewName; " +
			"generated DNS message; TXT payload length; params message × type-URL mode; key text; Noise payload; request payload × response payload " +
			"over a loopback UDP exchange) followed by the matching real decoder; evaluations = cases executed; distinct_nontrivial = distinct case " +
			"descriptors other than the empty payload whose encoding was accepted and compared byte-for-byte with the decoder's output, or that the " +
			"encoder refused with an error",
		Assumptions: []string{
			"reach is the generated workload: exhaustive over the stated length ranges of the framing / TXT / name-length functions, seeded elsewhere",
			"freshness of the randomised obfuscators is judged on the first 32 bytes (16+ random bytes for XOR tags of 16+ bytes); a collision of honest code has probability < 2^-120",
			"a request or response that an encoder refuses must surface as an error of RequestAndRecv; 'blocks forever' is concluded only from a stable parked goroutine after a 20 s watchdog together with the proof that nothing was sent (callback never ran / responder logged the drop)",
			"the reference for 'what one DNS name can carry' is RFC 1035 arithmetic (63-byte labels, 255-byte names) and is used only to name the class of a violation, never to demand acceptance",
		},
		Stages: []Stage{
			st("msgformat", "pkg/registrars/dns-registrar/msgformat", "^TestVerifC15"),
			st("dns", "pkg/registrars/dns-registrar/dns", "^TestVerifC15"),
			st("transports", "pkg/transports", "^TestVerifC15(Obfuscators|Anypb)$"),
			// own process: this test replaces crypto/rand.Reader, nothing else may draw from it meanwhile
			{Name: "transports-scripted", Pkg: "./pkg/transports", Run: "^TestVerifC15ScriptedRandomness$", Drivers: []string{"transports"},
				TimeoutQ: 10 * time.Minute, TimeoutT: 40 * time.Minute},
			st("encryption", "pkg/registrars/dns-registrar/encryption", "^TestVerifC15"),
			st("requester", "pkg/registrars/dns-registrar/requester", "^TestVerifC15"),
			st("responder", "pkg/registrars/dns-registrar/responder", "^TestVerifC15"),
			{Name: "responder-race", Pkg: "./pkg/registrars/dns-registrar/responder", Run: "^TestVerifC15ExchangeConcurrent$", Drivers: []string{"responder"},
				Race: true, TimeoutQ: 10 * time.Minute, TimeoutT: 40 * time.Minute,
				// only races inside the registrar's own packages are charged to this property
				RaceFilter: func(r RaceReport) bool {
					return r.Has("dns-registrar/responder", "dns-registrar/requester", "dns-registrar/dns", "dns-registrar/msgformat")
				}},
		},
		Post: c15Post,
	})
}

// c15Post refuses to report "held" when a stage accepted (almost) nothing: an encoder that refuses every value
// satisfies the statement vacuously, which must not look like a pass.
func c15Post(rc *RunCtx) {
	if rc.Only != "" {
		return
	}
	floors := map[string]int64{
		"msgformat.accepted_roundtrips":    2000,
		"dns.accepted_roundtrips":          2000,
		"obfuscators.accepted_roundtrips":  1000,
		"anypb.accepted_roundtrips":        300,
		"encryption.accepted_roundtrips":   300,
		"requester.accepted_roundtrips":    200,
		"exchange.accepted_roundtrips":     150,
		"concurrent.accepted_roundtrips":   300,
		"namecapacity.accepted_roundtrips": 800,
	}
	for k, min := range floors {
		if got := rc.Counts[k]; got < min {
			rc.Errors = append(rc.Errors, fmt.Sprintf("monitor counter %s = %d is below its floor %d: too few encodings were accepted and compared, refusing to claim the property held", k, got, min))
		}
	}
}
