package main

import "time"

func init() {
	register(&Prop{
		ID: "C18", Level: "exploration", Floor: 1000000,
		Rule: "a case = one history run from a fresh tester built by the real liveness.New(): (a) EVERY history of length 1..6 (quick) / 1..7 (thorough) over " +
			"{query(a1..a3) x host live/not-live, advance 20 min, ClearExpiredCache} for each configuration of the matrix live-only / non-live-only / both x map and LRU " +
			"capacity 1..3 x lifetimes 30m/50m (one length less for unequal capacities), (b) seeded random histories of length 200 over up to 8 addresses with random " +
			"configurations, (c) under -race, rounds of 8 concurrent workers (queries, ClearExpiredCache, Len) judged at the barrier. evaluations = histories (a, b) + rounds (c). " +
			"distinct_nontrivial: (a) distinct (configuration, response shape) pairs, shape = per-step response class {first probe +/-, re-probe of a known address +/-, cache hit +/-, " +
			"advance, clear} with addresses dropped, counted only if the history contains a cache hit or a re-probe; (b) distinct (configuration, history seed) with at least one cache hit " +
			"and one re-probe; (c) distinct (scenario, round) with at least one cache hit and one probe",
		Assumptions: []string{
			"harness time is simulated by replacing every cached entry with one whose cachedTime is 20 min (x k) older; reachable ages keep 10 min of distance from the lifetimes 30m/50m, " +
				"a history that takes more than 5 min of real time is not judged",
			"the oracle is one-directional on hits: a cache that probes more often than necessary is not charged; which entry a bounded cache evicts is not prescribed " +
				"(the implementation's own LRU key set is consulted to know what it evicted)",
			"the cache is keyed by address only (a verdict measured on one port is served for another port of the same address); this is taken as the design, not charged",
			"concurrent phase: the order 'probe entered before the cached answer returned' is taken from the monotonic clock; races are those the race detector sees on the executed schedules",
		},
		Stages: []Stage{
			{Name: "histories", Pkg: "./pkg/station/liveness", Run: "^TestVerifC18(Exhaustive|Outcomes|Boundary|Random)$", Drivers: []string{"liveness"}, TimeoutQ: 10 * time.Minute, TimeoutT: 40 * time.Minute},
			{Name: "concurrent", Pkg: "./pkg/station/liveness", Run: "^TestVerifC18Concurrent$", Race: true, Drivers: []string{"liveness"}, TimeoutQ: 10 * time.Minute, TimeoutT: 40 * time.Minute},
		},
	})
}
