package main

import "time"

func init() {
	register(&Prop{
		ID: "C18", Level: "exploration", Floor: 1000000,
		Rule: "a case = one history run from a fresh tester built by the real liveness.New(): (a) EVERY history of length 1..6 (quick) / 1..7 (thorough) over " +
			"{query(a1..a3) x host live/not-live, advance 20 min, ClearExpiredCache} for each configuration of the matrix live-only / non-live-only / both x map and LRU " +
			"capacity 1..3 x lifetimes 40m/60m (= 2 and 3 steps, so ages land exactly on the lifetime; one length less for unequal capacities and for 50 configurations with the zero / negative / 1 ns lifetimes 0s, 0, -5m, -1ns, 1ns), the error accompanying the scripted verdict " +
			"rotating through every error class; (a2) for every configuration and every ordered pair of the 12 scripted probe outcomes (verdict x error class: nil, sentinel, wrapped sentinel, " +
			"the other verdict's sentinel, text-rebuilt, context.DeadlineExceeded, net.OpError), a1 measured with the first outcome followed by every continuation of length 1..4 / 1..5 over " +
			"{query(a1), query(a2), advance, clear}; (a3) boundary: 128 / 512 entries per (configuration, age) queried again at every age in {0.5, 0.90 .. 0.999, L-1ns, L, L+1ns, 1.001 .. 1.05, 1.06, 1.08, 1.10, 1.5} x " +
			"lifetime for lifetimes 2s, 90s, 40m, 2h, 26h (ages 0..3h against the non-positive lifetimes), map and LRU, live-only / non-live-only / both; (b) seeded random histories of length 200 over up to 8 addresses with random " +
			"configurations, random outcomes and advances aimed at f x lifetime of a cached verdict; (c) under -race, rounds of 8 concurrent workers (queries, ClearExpiredCache, Len) judged at the barrier; (d) under -race, two overlapping lookups for one address gated inside the probe until both missed, " +
			"probes answering not-live / live in both assignments and release orders, then sequential follow-ups at ages 0, 20m, ... (both caches on, map and LRU); " +
			"(e) under -race, sweep rounds: an LRU of capacity 1500 / 4000 holding only expired entries, ClearExpiredCache in one goroutine while 4 workers re-query exactly those addresses (twice), then a cache worth of other addresses, Len() / served-in-a-row judged at quiescence; " +
			"the address alphabet of (a), (a2), (b), (c), (d) mixes plain IP literals with zone-scoped IPv6, a leading-zero IPv4 spelling and a host name (distinct addresses; the reference is per queried string). " +
			"evaluations = histories (a, a2, b) + (configuration, age) scenarios (a3) + rounds (c, e) + overlap scenarios (d). " +
			"distinct_nontrivial: (a, a2) distinct (configuration, [verdicts of the outcome pair,] response shape) tuples, shape = per-step response class {first probe +/-, re-probe of a known address +/-, cache hit +/-, " +
			"advance, clear} with addresses dropped, counted only if the history contains a cache hit or a re-probe; (a3) distinct (configuration, age) with a hit or a re-probe; (b) distinct (configuration, history seed) " +
			"with at least one cache hit and one re-probe; (c) distinct (scenario, round) with at least one cache hit and one probe",
		Assumptions: []string{
			"harness time is simulated by moving the cachedTime of every cached entry back, in place, while nothing else runs; the age the code computes is harness age + real elapsed time >= harness age, " +
				"so 'harness age >= configured lifetime => not answered from the cache' is exact and load cannot falsify it; entries dropped before the configured lifetime are legal and only counted",
			"the measured verdict is the bool the probe returned, whatever error value came with it",
			"the oracle is one-directional on hits: a cache that probes more often than necessary is not charged; which entry a bounded cache evicts is not prescribed " +
				"(the implementation's own LRU key set is consulted to know what it evicted; the element pointers of the verdict maps are consulted to know which measurement produced an entry)",
			"the cache is keyed by address only (a verdict measured on one port is served for another port of the same address); this is taken as the design, not charged",
			"concurrent phase: the order 'probe entered before the cached answer returned' is taken from the monotonic clock; races are those the race detector sees on the executed schedules",
		},
		Stages: []Stage{
			{Name: "histories", Pkg: "./pkg/station/liveness", Run: "^TestVerifC18(Exhaustive|Outcomes|Boundary|Random)$", Drivers: []string{"liveness"}, TimeoutQ: 10 * time.Minute, TimeoutT: 40 * time.Minute},
			{Name: "concurrent", Pkg: "./pkg/station/liveness", Run: "^TestVerifC18(Concurrent|Overlap|Sweep)$", Race: true, Drivers: []string{"liveness"}, TimeoutQ: 10 * time.Minute, TimeoutT: 40 * time.Minute},
		},
	})
}
