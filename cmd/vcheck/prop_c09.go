package main

import (
	"strings"
	"time"
)

func init() {
	register(&Prop{
		ID: "C09", Level: "exploration", Floor: 500,
		Rule: "see DESIGN.md §4 C09: monitor 6 enumerates every interleaving at the verifhook.Yield points of the real ingestRegistration / removeOldRegistrations for the small scenarios " +
			"(2 workers + activator; thorough: + sweeper) and samples seeded random walks for the larger ones, evaluating announce-once, visible⇒admitted and the bijection of the two registry maps at EVERY schedule point; " +
			"distinct_nontrivial = distinct schedules (yield sequences) executed + distinct registry histories checked",
		Assumptions: []string{
			"interleavings are enumerated at yield-point granularity (between critical sections); inside critical sections the race detector stage is the monitor",
		},
		Stages: []Stage{
			{Name: "schedules", Pkg: "./pkg/station/lib", Run: "^TestVerifC09Schedules$", Drivers: []string{"lib"}, HangIsViol: true, TimeoutQ: 10 * time.Minute, TimeoutT: 60 * time.Minute},
			{Name: "linearizability", Pkg: "./pkg/station/lib", Run: "^TestVerifC09Linearizability$", Drivers: []string{"lib"}, Files: []string{"c09lin"}, HangIsViol: true, TimeoutQ: 10 * time.Minute, TimeoutT: 30 * time.Minute},
			{Name: "shutdown", Pkg: "./pkg/station/lib", Run: "^TestVerifC09(Shutdown|ShutdownSustained|ShutdownDualStack|SharePeer)$", Drivers: []string{"lib"}, HangIsViol: true, TimeoutQ: 10 * time.Minute, TimeoutT: 30 * time.Minute},
			{Name: "overload", Pkg: "./pkg/station/lib", Run: "^TestVerifC09Overload$", Drivers: []string{"lib"}, HangIsViol: true, TimeoutQ: 10 * time.Minute, TimeoutT: 30 * time.Minute},
			{Name: "stress", Pkg: "./pkg/station/lib", Run: "^TestVerifC09Stress$", Drivers: []string{"lib"}, Race: true, HangIsViol: true, TimeoutQ: 10 * time.Minute, TimeoutT: 30 * time.Minute,
				Repeat: 2, RepeatT: 6, RaceFilter: c09RaceFilter, RaceSig: c09RaceSig},
		},
		Post: c09LinPost,
	})
}

// a race report belongs to C09 if one of the two accesses is in ingest, lookup, activation, expiry or
// configuration reload code of the station library (statistics printers are not part of the mix)
func c09RaceFilter(r RaceReport) bool {
	if r.Has("station/lib.(*Stats).AddStatsModule") {
		// the driver registers a statistics module per round while the process runs; the station does that once at
		// start-up, before it serves: not the property's subject
		return false
	}
	return r.Has("station/lib.(*RegistrationManager)", "station/lib.(*RegisteredDecoys)", "station/lib.(*RegConfig)", "station/lib.(*DecoyRegistration)", "pkg/phantoms.")
}

// Every report in which one access belongs to the configuration-reload goroutine (OnReload and the
// configuration / selector / GeoIP objects it built just before publishing them with a plain store)
// is one family: the reload path has no synchronisation with ingest workers and handlers at all.
func c09RaceSig(r RaceReport) string {
	for i, st := range r.Stacks {
		if i >= 2 {
			break
		}
		for _, f := range st {
			if strings.Contains(f, "c09ReloadLoop") || strings.Contains(f, "(*RegistrationManager).OnReload") {
				return "config-reload-unsynchronised"
			}
		}
	}
	return ""
}
