package main

import (
	"bufio"
	"encoding/json"
	"fmt"
	"os"
	"path/filepath"
	"time"

	"github.com/anishathalye/porcupine"
)

type linOp struct {
	Client  int    `json:"c"`
	Op      string `json:"op"`
	Phantom int    `json:"p"`
	ID      int    `json:"id"`
	Out     int    `json:"out"`
	Call    int64  `json:"call"`
	Ret     int64  `json:"ret"`
}

type linEntry struct {
	Present, Valid, Used bool
}
type linState [3]linEntry

// the sequential specification of the registry for ONE phantom
var linModel = porcupine.Model{
	Init: func() interface{} { return linState{} },
	Step: func(state, input, output interface{}) (bool, interface{}) {
		st := state.(linState)
		op := input.(linOp)
		out := output.(int)
		e := &st[op.ID%3]
		b := func(x bool) int {
			if x {
				return 1
			}
			return 0
		}
		switch op.Op {
		case "exists":
			return out == b(e.Present), st
		case "track":
			e.Present = true
			return true, st
		case "trackifnot":
			ok := out == b(e.Present)
			e.Present = true
			return ok, st
		case "register":
			announced := !e.Valid // tracked if necessary, then validated and announced exactly if it was not valid yet
			e.Present, e.Valid = true, true
			return out == b(announced), st
		case "get":
			mask := 0
			for i, x := range st {
				if x.Present && x.Valid {
					mask |= 1 << uint(i)
				}
			}
			return out == mask, st
		case "count":
			n := 0
			for _, x := range st {
				if x.Present {
					n++
				}
			}
			return out == n, st
		case "active":
			// an activation takes effect (used + one Update) only on a registration that is tracked AND validated
			// (fix eab6a08: a tracked registration that is not valid is left alone)
			eff := e.Present && e.Valid
			if eff {
				e.Used = true
			}
			return out == b(eff), st
		case "remove":
			// the sweeper forgets a record only if it is (still) expired when it takes the lock: in the
			// recorded workload every unused record counts as expired and no used one does
			if e.Present && !e.Used {
				*e = linEntry{}
				return out == 1, st
			}
			return out == 0, st
		}
		return false, st
	},
	Equal: func(a, b interface{}) bool { return a.(linState) == b.(linState) },
	DescribeOperation: func(input, output interface{}) string {
		op := input.(linOp)
		return fmt.Sprintf("%s(id%d)→%d", op.Op, op.ID, output.(int))
	},
}

func c09LinPost(rc *RunCtx) {
	files, _ := filepath.Glob(filepath.Join(rc.Work, "*.out", "c09_histories.jsonl"))
	var nHist, nOps, nParts, unknown int64
	distinct := map[string]bool{}
	for _, f := range files {
		fh, err := os.Open(f)
		if err != nil {
			continue
		}
		sc := bufio.NewScanner(fh)
		sc.Buffer(make([]byte, 1<<20), 64<<20)
		for sc.Scan() {
			var hist []linOp
			if json.Unmarshal(sc.Bytes(), &hist) != nil {
				continue
			}
			nHist++
			byPhantom := map[int][]porcupine.Operation{}
			shape := ""
			for _, op := range hist {
				nOps++
				byPhantom[op.Phantom] = append(byPhantom[op.Phantom], porcupine.Operation{ClientId: op.Client, Input: op, Call: op.Call, Output: op.Out, Return: op.Ret})
				shape += fmt.Sprintf("%d%s%d%d;", op.Client, op.Op[:2], op.Phantom, op.ID)
			}
			distinct[shape] = true
			for p, ops := range byPhantom {
				nParts++
				res := porcupine.CheckOperationsTimeout(linModel, ops, 60*time.Second)
				switch res {
				case porcupine.Illegal:
					var w []string
					for _, o := range ops {
						in := o.Input.(linOp)
						w = append(w, fmt.Sprintf("c%d %s(id%d)→%d [%d,%d]", in.Client, in.Op, in.ID, in.Out, in.Call, in.Ret))
					}
					rc.Violations = append(rc.Violations, Violation{Sig: "linearizability:registry-api", Msg: "a recorded history of the registry API has no linearization against the sequential map model",
						Stage: "linearizability", Mon: "porcupine", Detail: map[string]interface{}{"history": nHist, "phantom": p, "operations": w}})
				case porcupine.Unknown:
					unknown++
					rc.Incon = append(rc.Incon, fmt.Sprintf("[linearizability] checker timed out on history %d phantom %d (%d operations)", nHist, p, len(ops)))
				}
			}
		}
		fh.Close()
	}
	rc.addCount("linearizability.histories_checked", nHist)
	rc.addCount("linearizability.operations_checked", nOps)
	rc.addCount("linearizability.partitions_checked", nParts)
	rc.addCount("linearizability.checker_timeouts", unknown)
	rc.addDistinct("linearizability.distinct_histories", int64(len(distinct)))
	rc.addDistinct("nontrivial", int64(len(distinct)))
	if nHist == 0 && rc.Only == "" {
		rc.Errors = append(rc.Errors, "no registry histories were recorded: the linearizability monitor observed nothing")
	}
}
