package main

// C10 – every detector announcement is acceptable to the detector and matches the registration.
//
// The driver (drivers/lib/zz_verif_c10_test.go) records every message the station published together with the
// registration it was published for.  This file holds the deciding half: it cuts the detector's acceptance
// path out of the repository's Rust sources (by item name + brace matching, at check time, from the tree that
// is being checked), compiles it with rustc against /verif/rustshim/c10_prelude.rs (no detector logic) and
// /verif/rustshim/c10_main.rs (harness), pipes the recorded messages through it and compares what the
// detector's code did with what the registration says.  No rustc / failed extraction / failed compilation is
// an ERROR (exit 2); there is deliberately no fallback to a re-implementation.

import (
	"bufio"
	"bytes"
	"crypto/sha256"
	"encoding/hex"
	"encoding/json"
	"fmt"
	"net/netip"
	"os"
	"os/exec"
	"path/filepath"
	"regexp"
	"sort"
	"strconv"
	"strings"
	"time"
	"unicode/utf8"
)

func init() {
	register(&Prop{
		ID: "C10", Level: "exploration", Floor: 2000,
		Rule: "an evaluation = one message published by the real station code (sendToDetector via ingestRegistration / MarkActive, clearDetector via Cleanup) " +
			"and judged by the detector's own code (SessionResult::from, pubsub_handle_s2d, SessionTracker::is_tracked_session / drop_stale_sessions, " +
			"FlowNoSrcPort::tag, cut out of the checked tree's src/*.rs and compiled with rustc) against the registration it was published for; " +
			"distinct_nontrivial = distinct (state New/Update, transport, phantom class, registrant class, port class, override class) of messages for " +
			"admitted registrations, plus Clear messages that met a non-empty session map",
		Assumptions: []string{
			"the detector's message struct, its enums and its field getters are cut out of the repository's generated src/signalling.rs; only three names of the rust-protobuf " +
				"runtime (Enum, EnumOrUnknown.enum_value_or, SpecialFields), pnet's IpNextHeaderProtocol newtype with Tcp=6 / Udp=17, the log macros and precise_time_ns " +
				"(a logical clock) are stand-ins written here; the full detector cannot be built offline",
			"wire decoding on the detector side is not executed (rust-protobuf is unavailable): the published bytes are decoded by the station's own generated pb.StationToDetector " +
				"and the field values (absent kept apart from empty) are handed to the detector code",
			"the flow the registration's client will send is taken to be registrant address -> phantom address : destination port over the transport's protocol " +
				"(wrapping transports TCP, DTLS UDP); an IPv4 address in 16-byte form travels in an IPv4 header",
			"Redis delivery itself (PUBLISH -> subscriber) is replaced by an in-process RESP server",
		},
		Stages: []Stage{
			{Name: "announce", Pkg: "./pkg/station/lib", Run: "^TestVerifC10(Announce|Lifetime|ShutdownBusy|ShutdownOverlap)$", Drivers: []string{"lib"}, Exports: []string{"cdtls", "lib"},
				TimeoutQ: 10 * time.Minute, TimeoutT: 40 * time.Minute},
			// own child process (the station's redis client is created once per process) and own network namespace (the
			// real initRedisClient dials the fixed localhost:6379): nothing listens when the first announcement is due
			{Name: "redis-late", Pkg: "./pkg/station/lib", Run: "^TestVerifC10RedisLate$", Drivers: []string{"lib"}, Exports: []string{"cdtls", "lib"},
				Netns: true, TimeoutQ: 10 * time.Minute, TimeoutT: 20 * time.Minute},
		},
		Post: c10Post,
	})
}

// ---- cutting items out of Rust source ----------------------------------------------------------------------

// rsSkipTrivia: if a comment, string or char literal starts at src[i], return the index just after it, else i.
func rsSkipTrivia(src string, i int) int {
	n := len(src)
	c := src[i]
	switch {
	case c == '/' && i+1 < n && src[i+1] == '/':
		j := strings.IndexByte(src[i:], '\n')
		if j < 0 {
			return n
		}
		return i + j // leave the newline
	case c == '/' && i+1 < n && src[i+1] == '*':
		depth, j := 1, i+2
		for j < n && depth > 0 {
			switch {
			case strings.HasPrefix(src[j:], "/*"):
				depth++
				j += 2
			case strings.HasPrefix(src[j:], "*/"):
				depth--
				j += 2
			default:
				j++
			}
		}
		return j
	case c == '"':
		j := i + 1
		for j < n {
			if src[j] == '\\' {
				j += 2
				continue
			}
			if src[j] == '"' {
				return j + 1
			}
			j++
		}
		return n
	case c == 'r' && i+1 < n && (src[i+1] == '"' || src[i+1] == '#') && (i == 0 || !rsIdent(src[i-1])):
		// raw string r"…" / r#"…"#
		j, hashes := i+1, 0
		for j < n && src[j] == '#' {
			hashes++
			j++
		}
		if j >= n || src[j] != '"' {
			return i
		}
		end := "\"" + strings.Repeat("#", hashes)
		k := strings.Index(src[j+1:], end)
		if k < 0 {
			return n
		}
		return j + 1 + k + len(end)
	case c == '\'':
		// char literal or lifetime
		if i+1 < n && src[i+1] == '\\' {
			j := i + 2
			for j < n && src[j] != '\'' {
				j++
			}
			return j + 1
		}
		if i+1 < n {
			_, sz := utf8.DecodeRuneInString(src[i+1:])
			if i+1+sz < n && src[i+1+sz] == '\'' {
				return i + 1 + sz + 1
			}
		}
		return i + 1 // lifetime: just the quote
	}
	return i
}

func rsIdent(b byte) bool {
	return b == '_' || (b >= '0' && b <= '9') || (b >= 'a' && b <= 'z') || (b >= 'A' && b <= 'Z')
}

// rsItemEnd: from the start of an item header, return the index just after the item: after the `;` if one comes
// before any `{`, else after the `}` matching the first `{`.
func rsItemEnd(src string, start int) (int, error) {
	depth := 0
	for i := start; i < len(src); {
		if j := rsSkipTrivia(src, i); j != i {
			i = j
			continue
		}
		switch src[i] {
		case ';':
			if depth == 0 {
				return i + 1, nil
			}
		case '{':
			depth++
		case '}':
			depth--
			if depth == 0 {
				return i + 1, nil
			}
			if depth < 0 {
				return 0, fmt.Errorf("unbalanced braces")
			}
		}
		i++
	}
	return 0, fmt.Errorf("item does not end")
}

type rsItem struct {
	File, Name string
	Line, End  int // 1-based line range in the source file
	Hdr, Stop  int // byte offsets: start of the header line, just after the item
	Text       string
}

// rsCut finds the unique item whose header matches re (anchored at a line start) inside src[lo:hi], including the
// attribute / comment lines directly above it.
func rsCut(file, src string, lo, hi int, name, re string) (rsItem, error) {
	rx, err := regexp.Compile(`(?m)^[ \t]*` + re)
	if err != nil {
		return rsItem{}, err
	}
	locs := rx.FindAllStringIndex(src[lo:hi], -1)
	if len(locs) != 1 {
		return rsItem{}, fmt.Errorf("%s: item %q: header /%s/ found %d times (want exactly 1)", file, name, re, len(locs))
	}
	start := lo + locs[0][0]
	hdr := start
	end, err := rsItemEnd(src, start)
	if err != nil || end > hi {
		return rsItem{}, fmt.Errorf("%s: item %q: %v", file, name, err)
	}
	// attributes / comment lines directly above
	for start > 0 {
		prevEnd := start - 1 // the '\n' before the current line
		prevStart := strings.LastIndexByte(src[:prevEnd], '\n') + 1
		l := strings.TrimSpace(src[prevStart:prevEnd])
		if strings.HasPrefix(l, "#[") || strings.HasPrefix(l, "//") {
			start = prevStart
			continue
		}
		break
	}
	return rsItem{File: file, Name: name, Line: 1 + strings.Count(src[:start], "\n"), End: 1 + strings.Count(src[:end], "\n"), Hdr: hdr, Stop: end, Text: src[start:end]}, nil
}

const rsVis = `(?:pub(?:\([a-z ]+\))?[ \t]+)?`

type c10Shim struct {
	Bin     string
	Channel string // the Redis channel named in ingest_from_pubsub ("" = not found)
	Rustc   string
	Version string
	Items   []map[string]interface{}
	Sources map[string]string // file -> sha256
	BuildS  float64
}

func c10FindRustc() (string, error) {
	if p, err := exec.LookPath("rustc"); err == nil {
		return p, nil
	}
	for _, p := range []string{filepath.Join(os.Getenv("HOME"), ".cargo/bin/rustc"), "/root/.cargo/bin/rustc", "/usr/local/cargo/bin/rustc", "/usr/bin/rustc"} {
		if st, err := os.Stat(p); err == nil && !st.IsDir() {
			return p, nil
		}
	}
	return "", fmt.Errorf("rustc not found (PATH, ~/.cargo/bin): the detector's code cannot be executed")
}

// c10BuildShim assembles and compiles the detector shim from the tree under repo.
func c10BuildShim(repo, verif, work string) (*c10Shim, error) {
	t0 := time.Now()
	sh := &c10Shim{Sources: map[string]string{}}
	var err error
	if sh.Rustc, err = c10FindRustc(); err != nil {
		return nil, err
	}
	if out, err := exec.Command(sh.Rustc, "--version").CombinedOutput(); err == nil {
		sh.Version = strings.TrimSpace(string(out))
	} else {
		return nil, fmt.Errorf("rustc does not run: %v %s", err, out)
	}
	read := func(rel string) (string, error) {
		b, err := os.ReadFile(filepath.Join(repo, rel))
		if err != nil {
			return "", fmt.Errorf("cannot read the detector source: %v", err)
		}
		h := sha256.Sum256(b)
		sh.Sources[rel] = hex.EncodeToString(h[:])
		return string(b), nil
	}
	var parts []string
	add := func(it rsItem, err error) error {
		if err != nil {
			return err
		}
		sh.Items = append(sh.Items, map[string]interface{}{"file": it.File, "item": it.Name, "lines": fmt.Sprintf("%d-%d", it.Line, it.End)})
		parts = append(parts, fmt.Sprintf("// ---- %s:%d-%d  %s\n%s\n", it.File, it.Line, it.End, it.Name, it.Text))
		return nil
	}

	// (a) the generated protobuf code: enums, message struct, the getters the detector calls
	sigF := "src/signalling.rs"
	sig, err := read(sigF)
	if err != nil {
		return nil, err
	}
	for _, e := range []string{"IPProto", "StationOperations"} {
		if err := add(rsCut(sigF, sig, 0, len(sig), "enum "+e, rsVis+`enum `+e+`\b`)); err != nil {
			return nil, err
		}
		if err := add(rsCut(sigF, sig, 0, len(sig), "impl ::protobuf::Enum for "+e, `impl ::protobuf::Enum for `+e+`\b`)); err != nil {
			return nil, err
		}
	}
	if err := add(rsCut(sigF, sig, 0, len(sig), "struct StationToDetector", rsVis+`struct StationToDetector\b`)); err != nil {
		return nil, err
	}
	implS2D, err := rsCut(sigF, sig, 0, len(sig), "impl StationToDetector", `impl StationToDetector\b`)
	if err != nil {
		return nil, err
	}
	implLo := implS2D.Hdr + strings.Index(sig[implS2D.Hdr:], "{") + 1
	implHi := implS2D.Stop - 1
	parts = append(parts, "impl StationToDetector {\n")
	for _, g := range []string{"phantom_ip", "client_ip", "timeout_ns", "operation", "dst_port", "src_port", "proto"} {
		if err := add(rsCut(sigF, sig, implLo, implHi, "StationToDetector::"+g, rsVis+`fn `+g+`\(&self\)`)); err != nil {
			return nil, err
		}
	}
	parts = append(parts, "}\n")

	// (b) the acceptance path
	sesF := "src/sessions.rs"
	ses, err := read(sesF)
	if err != nil {
		return nil, err
	}
	// the unit tests of sessions.rs repeat some names inside `mod tests`; cut only above it
	sesHi := len(ses)
	if m := regexp.MustCompile(`(?m)^#\[cfg\(test\)\]`).FindStringIndex(ses); m != nil {
		sesHi = m[0]
	}
	for _, it := range [][2]string{
		{"const S2NS", `const S2NS\b`},
		{"const TIMEOUT_PHANTOMS_NS", `const TIMEOUT_PHANTOMS_NS\b`},
		{"enum SessionError", rsVis + `enum SessionError\b`},
		{"type SessionResult", rsVis + `type SessionResult\b`},
		{"impl fmt::Display for SessionError", `impl fmt::Display for SessionError\b`},
		{"struct SessionDetails", rsVis + `struct SessionDetails\b`},
		{"trait Taggable", rsVis + `trait Taggable\b`},
		{"impl Taggable for SessionDetails", `impl Taggable for SessionDetails\b`},
		{"impl SessionDetails", `impl SessionDetails\b`},
		{"impl From<&StationToDetector> for SessionResult", `impl (?:Try)?From<&StationToDetector> for \w+`},
		{"struct SessionTracker", rsVis + `struct SessionTracker\b`},
		{"impl SessionTracker", `impl SessionTracker\b`},
		{"fn pubsub_handle_s2d", rsVis + `fn pubsub_handle_s2d\b`},
		{"fn pubsub_add_or_update_session", rsVis + `fn pubsub_add_or_update_session\b`},
		{"fn pubsub_clear", rsVis + `fn pubsub_clear\b`},
	} {
		if err := add(rsCut(sesF, ses, 0, sesHi, it[0], it[1])); err != nil {
			return nil, err
		}
	}

	// (c) the flow key the packet path looks sessions up with
	flF := "src/flow_tracker.rs"
	fl, err := read(flF)
	if err != nil {
		return nil, err
	}
	flHi := len(fl)
	if m := regexp.MustCompile(`(?m)^#\[cfg\(test\)\]`).FindStringIndex(fl); m != nil {
		flHi = m[0]
	}
	for _, it := range [][2]string{
		{"struct FlowNoSrcPort", rsVis + `struct FlowNoSrcPort\b`},
		{"impl Taggable for FlowNoSrcPort", `impl Taggable for FlowNoSrcPort\b`},
	} {
		if err := add(rsCut(flF, fl, 0, flHi, it[0], it[1])); err != nil {
			return nil, err
		}
	}

	pre, err := os.ReadFile(filepath.Join(verif, "rustshim", "c10_prelude.rs"))
	if err != nil {
		return nil, err
	}
	mainRs, err := os.ReadFile(filepath.Join(verif, "rustshim", "c10_main.rs"))
	if err != nil {
		return nil, err
	}
	srcPath := filepath.Join(work, "c10_shim.rs")
	all := string(pre) + "\n" + strings.Join(parts, "\n") + "\n" + string(mainRs)
	if err := os.WriteFile(srcPath, []byte(all), 0o644); err != nil {
		return nil, err
	}
	sh.Bin = filepath.Join(work, "c10_shim")
	cmd := exec.Command(sh.Rustc, "--edition", "2015", "-C", "opt-level=2", "-C", "debuginfo=0", "--crate-name", "c10_shim", "-o", sh.Bin, srcPath)
	cmd.Dir = work
	out, err := cmd.CombinedOutput()
	if err != nil {
		os.WriteFile(filepath.Join(work, "c10_shim.rustc.out"), out, 0o644)
		msg := string(out)
		if len(msg) > 3000 {
			msg = msg[:3000]
		}
		return nil, fmt.Errorf("rustc could not compile the items cut out of the detector sources (infrastructure, not a verdict): %v\n%s", err, msg)
	}
	// the channel the detector's subscriber loop listens on (read from the source, not executed)
	if it, err := rsCut(sesF, ses, 0, sesHi, "fn ingest_from_pubsub", rsVis+`fn ingest_from_pubsub\b`); err == nil {
		if m := regexp.MustCompile(`\.subscribe\(\s*"([^"]+)"\s*\)`).FindStringSubmatch(it.Text); m != nil {
			sh.Channel = m[1]
		}
	}
	sh.BuildS = time.Since(t0).Seconds()
	return sh, nil
}

// ---- records -----------------------------------------------------------------------------------------------

type c10Record struct {
	T     string `json:"t"`
	NS    uint64 `json:"ns"`
	ID    int    `json:"id"`
	Kind  string `json:"kind"`
	State string `json:"state"`
	Case  string `json:"case"`
	Tr    string `json:"tr"`
	Raw   string `json:"raw"`
	Chan  string `json:"chan"`

	Phantom *string `json:"phantom"`
	Client  *string `json:"client"`
	Timeout *uint64 `json:"timeout"`
	Op      *int32  `json:"op"`
	DPort   *uint32 `json:"dport"`
	SPort   *uint32 `json:"sport"`
	Proto   *int32  `json:"proto"`
	Unknown int     `json:"unknown"`

	EPhantom string `json:"ephantom"`
	EClient  string `json:"eclient"`
	EPort    uint32 `json:"eport"`
	RegProto int32  `json:"regproto"`
	TrProto  int32  `json:"trproto"`
	ELife    uint64 `json:"elife"`

	PClass  string `json:"pclass"`
	CClass  string `json:"cclass"`
	PoClass string `json:"poclass"`
	OvClass string `json:"ovclass"`

	Unused uint64 `json:"unused"`
	Active uint64 `json:"active"`

	Seq    int    `json:"seq"`
	Fam    string `json:"fam"`
	Ops    string `json:"ops"`
	Reg    int    `json:"reg"`
	Holds  bool   `json:"holds"`
	HadDup bool   `json:"haddup"`
	Window bool   `json:"window"`
	VT     uint64 `json:"vt"`
	AgeAnn uint64 `json:"ageann"`
	AgeDup uint64 `json:"agedup"`

	Tracked      *bool  `json:"tracked"`
	AnnUntracked bool   `json:"annuntracked"`
	Registry     string `json:"registry"`
	Stale        bool   `json:"stale"`
}

// label names the message for signatures: new | update | dup-unused | dup-used | clear | shutdown-clear | stray
func (r *c10Record) label() string {
	if r.Kind == "dup" {
		return "dup-" + r.State
	}
	return r.Kind
}

func (r *c10Record) witness(reply map[string]string) map[string]interface{} {
	str := func(p *string) interface{} {
		if p == nil {
			return nil
		}
		return *p
	}
	num := func(p interface{}) interface{} { return p }
	w := map[string]interface{}{
		"state": r.label(), "case": r.Case, "channel": r.Chan, "published_bytes_hex": r.Raw,
		"decoded_message": map[string]interface{}{"phantom_ip": str(r.Phantom), "client_ip": str(r.Client), "timeout_ns": num(r.Timeout),
			"operation": num(r.Op), "dst_port": num(r.DPort), "src_port": num(r.SPort), "proto": num(r.Proto)},
	}
	if r.EPhantom != "" {
		w["registration"] = map[string]interface{}{"phantom": c10IPText(r.EPhantom), "registrant": c10IPText(r.EClient), "dst_port": r.EPort,
			"reg.PhantomProto": r.RegProto, "transport": r.Tr, "station_lifetime_ns": r.ELife}
	}
	if reply != nil {
		d := map[string]string{}
		for k, v := range reply {
			if k == "log" {
				if b, err := hex.DecodeString(strings.TrimPrefix(v, "x")); err == nil {
					v = string(b)
				}
				k = "detector_log"
			}
			d[k] = v
		}
		w["detector"] = d
	}
	return w
}

func c10IPText(hx string) string {
	b, err := hex.DecodeString(hx)
	if err != nil {
		return "?" + hx
	}
	if a, ok := netip.AddrFromSlice(b); ok {
		return a.String() + fmt.Sprintf(" (%d bytes)", len(b))
	}
	return fmt.Sprintf("not an address: %d bytes %s", len(b), hx)
}

func c10Addr(hx string) (netip.Addr, bool) {
	b, err := hex.DecodeString(hx)
	if err != nil {
		return netip.Addr{}, false
	}
	a, ok := netip.AddrFromSlice(b)
	return a.Unmap(), ok
}

var c10Iana = map[int32]int{1: 6, 2: 17} // pb.IPProto_Tcp / _Udp -> IANA protocol number

func c10ShimLine(r *c10Record) string {
	s := func(p *string) string {
		if p == nil {
			return "-"
		}
		return "x" + hex.EncodeToString([]byte(*p))
	}
	f := []string{"M", strconv.Itoa(r.ID), s(r.Phantom), s(r.Client), "-", "-", "-", "-", "-", "-", "-", "0", "0", "-"}
	if r.Timeout != nil {
		f[4] = strconv.FormatUint(*r.Timeout, 10)
	}
	if r.Op != nil {
		f[5] = strconv.Itoa(int(*r.Op))
	}
	if r.DPort != nil {
		f[6] = strconv.FormatUint(uint64(*r.DPort), 10)
	}
	if r.SPort != nil {
		f[7] = strconv.FormatUint(uint64(*r.SPort), 10)
	}
	if r.Proto != nil {
		f[8] = strconv.Itoa(int(*r.Proto))
	}
	if (r.Kind == "new" || r.Kind == "update" || r.Kind == "dup") && r.EPhantom != "" {
		if r.EClient != "" {
			f[9] = r.EClient
		}
		f[10] = r.EPhantom
		f[11] = strconv.Itoa(int(r.EPort))
		f[12] = strconv.Itoa(c10Iana[r.TrProto])
		f[13] = strconv.FormatUint(r.ELife, 10)
	}
	return strings.Join(f, "\t")
}

// ---- the offline oracle ------------------------------------------------------------------------------------

func c10Post(rc *RunCtx) {
	if rc.Only != "" && !strings.Contains("announce", rc.Only) {
		return
	}
	for _, v := range rc.Violations {
		if strings.HasPrefix(v.Sig, "crash:") || strings.HasPrefix(v.Sig, "hang:") {
			return // the driver died; that is already reported and its records are incomplete
		}
	}
	sh, err := c10BuildShim(repoDir, verifDir, rc.Work)
	if err != nil {
		rc.Errors = append(rc.Errors, "C10: detector shim unavailable, nothing can be decided: "+err.Error())
		return
	}
	rc.Extra["detector_code"] = "extracted-from-repo"
	rc.Extra["detector_shim"] = map[string]interface{}{"subscribed_channel": sh.Channel, "rustc": sh.Version, "build_s": sh.BuildS, "items": sh.Items, "sources_sha256": sh.Sources}
	c10JudgeStage(rc, sh, "announce", true)
	c10JudgeBusy(rc, sh)
	if len(rc.Errors) == 0 && rc.Only == "" {
		// the detector channel comes up only after the first announcement was due (own process: the client is a per-process Once)
		c10JudgeStage(rc, sh, "redis-late", false)
	}
}

// c10JudgeStage judges the message records one driver stage left (main = the announce stage, which also carries the
// lifetime-agreement records).
func c10JudgeStage(rc *RunCtx, sh *c10Shim, stage string, main bool) {
	recPath := filepath.Join(rc.Work, stage+".0.out", "c10_records.jsonl")
	fh, err := os.Open(recPath)
	if err != nil {
		rc.Errors = append(rc.Errors, fmt.Sprintf("C10: the %s driver left no records (%v)", stage, err))
		return
	}
	defer fh.Close()
	clearsBefore, shutdownsBefore := rc.Counts["clear_on_nonempty_map"], rc.Counts["shutdown_clear_on_nonempty_map"]

	// pass 1: records -> shim input
	var recs []*c10Record
	byID := map[int]*c10Record{}
	var in bytes.Buffer
	sc := bufio.NewScanner(fh)
	sc.Buffer(make([]byte, 1<<20), 16<<20)
	var unused, active uint64
	for sc.Scan() {
		r := &c10Record{}
		if err := json.Unmarshal(sc.Bytes(), r); err != nil {
			rc.Errors = append(rc.Errors, fmt.Sprintf("C10: unreadable record: %v", err))
			return
		}
		switch r.T {
		case "R":
			in.WriteString("R\n")
		case "A":
			fmt.Fprintf(&in, "A\t%d\n", r.NS)
		case "S":
			unused, active = r.Unused, r.Active
		case "M":
			in.WriteString(c10ShimLine(r))
			in.WriteByte('\n')
			byID[r.ID] = r
			recs = append(recs, r)
		case "X", "U":
			recs = append(recs, r)
		}
	}
	os.WriteFile(filepath.Join(rc.Work, stage+".c10_shim.in"), in.Bytes(), 0o644)

	cmd := exec.Command(sh.Bin)
	cmd.Stdin = &in
	var stdout, stderr bytes.Buffer
	cmd.Stdout, cmd.Stderr = &stdout, &stderr
	t0 := time.Now()
	if err := cmd.Run(); err != nil {
		rc.Errors = append(rc.Errors, fmt.Sprintf("C10: the detector shim failed (infrastructure): %v\n%s", err, tail(stderr.String(), 1500)))
		return
	}
	os.WriteFile(filepath.Join(rc.Work, stage+".c10_shim.out"), stdout.Bytes(), 0o644)
	rc.Extra["detector_shim_run_s"] = time.Since(t0).Seconds()
	replies := map[int]map[string]string{}
	for _, l := range strings.Split(stdout.String(), "\n") {
		if l == "" {
			continue
		}
		m := map[string]string{}
		for _, kv := range strings.Split(l, "\t") {
			if i := strings.IndexByte(kv, '='); i > 0 {
				m[kv[:i]] = kv[i+1:]
			}
		}
		id, err := strconv.Atoi(m["id"])
		if err != nil {
			rc.Errors = append(rc.Errors, "C10: unreadable shim reply: "+l)
			return
		}
		replies[id] = m
	}

	viol := func(sig, msg string, r *c10Record, reply map[string]string) {
		rc.Violations = append(rc.Violations, Violation{Sig: sig, Msg: msg, Stage: stage, Mon: "detector-shim", Detail: r.witness(reply)})
	}

	// the station's own lifetimes are what it expires registrations with; the property names their values
	if unused != uint64(10*time.Minute) {
		viol(fmt.Sprintf("station-lifetime:unused=%d", unused), fmt.Sprintf("the station's own lifetime for a new registration is %v, not 10 minutes", time.Duration(unused)), &c10Record{Kind: "new"}, nil)
	}
	if active != uint64(6*time.Hour) {
		viol(fmt.Sprintf("station-lifetime:active=%d", active), fmt.Sprintf("the station's own lifetime for a used registration is %v, not 6 hours", time.Duration(active)), &c10Record{Kind: "update"}, nil)
	}

	distinct := map[string]bool{}
	nsamples := map[string]int{}
	nviolBefore := len(rc.Violations)
	for _, r := range recs {
		rc.addCount("evaluations", 1)
		rc.addCount("judged_"+r.Kind, 1)
		switch r.T {
		case "X":
			if r.Kind == "shutdown-clear" {
				viol("clear:not-published-after-shutdown", "after the station's shutdown sequence (cancel, wg.Wait, Cleanup) no Clear reached the detector channel: the detector keeps every session", r, nil)
				continue
			}
			viol("missing-announcement:"+r.Kind, "nothing was published on the detector channel for this "+map[string]string{"new": "admitted registration", "update": "activated registration", "clear": "shutdown"}[r.Kind], r, nil)
			continue
		case "U":
			viol("undecodable:"+r.Kind, "the published bytes are not a StationToDetector message", r, nil)
			continue
		}
		rep := replies[r.ID]
		if rep == nil {
			rc.Errors = append(rc.Errors, fmt.Sprintf("C10: the shim gave no reply for message %d", r.ID))
			return
		}
		if sh.Channel != "" && r.Chan != sh.Channel {
			// the channel the detector subscribes to (sessions.rs ingest_from_pubsub)
			viol("wrong-channel:"+r.Chan, "published on a channel the detector does not subscribe to", r, rep)
			continue
		}
		classes := fmt.Sprintf("phantom=%s,registrant=%s", r.PClass, r.CClass)
		switch r.Kind {
		case "clear", "shutdown-clear":
			lb, _ := strconv.Atoi(rep["len_before"])
			la, _ := strconv.Atoi(rep["len_after"])
			if lb == 0 {
				rc.addCount(r.Kind+"_on_empty_map_undecidable", 1)
				continue
			}
			distinct[r.Kind+"/non-empty-map"] = true
			rc.addCount(strings.ReplaceAll(r.Kind, "-", "_")+"_on_nonempty_map", 1)
			if la != 0 {
				why := "op=" + rep["op"]
				if rep["parse"] != "ok" {
					why = "rejected-" + rep["parse"]
				}
				viol(r.Kind+":not-acted-on:"+why, fmt.Sprintf("after the station's Clear the detector still holds %d of %d sessions (%s)", la, lb, why), r, rep)
			} else if nsamples[r.Kind] < 1 {
				nsamples[r.Kind]++
				rc.Samples = append(rc.Samples, map[string]interface{}{"monitor": "detector-shim", "case": r.witness(rep)})
			}
			continue
		case "stray":
			// published for a registration that was not admitted: only acceptability is looked at
			if rep["parse"] != "ok" {
				viol("reject:"+rep["parse"]+":stray", "a message published for a registration that was not admitted does not parse under the detector's rules", r, rep)
			}
			continue
		}

		// ---- New / Update / re-announcement for an admitted registration, judged against the tracked registration
		// in its state at that moment
		kind := r.label()
		distinct[strings.Join([]string{kind, r.Tr, r.PClass, r.CClass, r.PoClass, c10OvShape(r.OvClass)}, "/")] = true
		bad := false
		if rep["parse"] != "ok" {
			viol("reject:"+rep["parse"]+":"+c10Culprit(rep["parse"], r), fmt.Sprintf("the detector's SessionResult::from rejects the %s announcement: %s", kind, rep["parse"]), r, rep)
			continue
		}
		ePh, okP := c10Addr(r.EPhantom)
		eCl, okC := c10Addr(r.EClient)
		gPh, err1 := netip.ParseAddr(rep["sd_phantom"])
		gCl, err2 := netip.ParseAddr(rep["sd_client"])
		if err1 != nil || err2 != nil {
			rc.Errors = append(rc.Errors, fmt.Sprintf("C10: unreadable address in shim reply %v", rep))
			return
		}
		if !okP || gPh.Unmap() != ePh {
			viol("mismatch:phantom:"+kind, fmt.Sprintf("the detector understood phantom %s, the registration's is %s", gPh, c10IPText(r.EPhantom)), r, rep)
			bad = true
		}
		if r.CClass == "absent" || r.CClass == "zero16" || r.EClient == strings.Repeat("00", 16) {
			// there is no registrant address to carry; whatever client the detector accepted will do
		} else if !okC || gCl.Unmap() != eCl {
			viol("mismatch:client:"+kind+":registrant="+r.CClass, fmt.Sprintf("the detector understood client %s, the registrant is %s", gCl, c10IPText(r.EClient)), r, rep)
			bad = true
		}
		if rep["sd_dport"] != strconv.Itoa(int(r.EPort)) {
			viol("mismatch:port:"+kind, fmt.Sprintf("the detector understood destination port %s, the registration's is %d", rep["sd_dport"], r.EPort), r, rep)
			bad = true
		}
		if r.RegProto != r.TrProto {
			viol("proto:registration-differs-from-transport:"+r.Tr, fmt.Sprintf("the registration object carries IPProto %d for transport %s", r.RegProto, r.Tr), r, rep)
			bad = true
		}
		if rep["sd_proto"] != strconv.Itoa(c10Iana[r.TrProto]) {
			viol("mismatch:proto:"+r.Tr, fmt.Sprintf("the detector understood IP protocol %s, transport %s uses %d", rep["sd_proto"], r.Tr, c10Iana[r.TrProto]), r, rep)
			bad = true
		}
		if rep["sd_timeout"] != strconv.FormatUint(r.ELife, 10) {
			viol("lifetime:"+kind+":requested="+rep["sd_timeout"], fmt.Sprintf("the requested lifetime is %s ns, the station's own for this state is %d ns", rep["sd_timeout"], r.ELife), r, rep)
			bad = true
		}
		if bad {
			continue
		}
		// effect on the detector's session map, seen through its own lookup and expiry code
		if rep["flow"] != "ok" {
			rc.Incon = append(rc.Incon, fmt.Sprintf("["+stage+"/detector-shim] message %d parses but no flow could be built from the registration (%s)", r.ID, classes))
			continue
		}
		if rep["tracked"] != "1" {
			if rep["nchanged"] == "0" {
				viol("ignored:op="+rep["op"]+":"+kind, "the detector's handler left its session map untouched for this operation", r, rep)
			} else {
				viol("not-forwarded:"+kind+":"+classes, "after the announcement the detector's is_tracked_session does not recognise the flow registrant -> phantom:port", r, rep)
			}
			continue
		}
		rem, _ := strconv.ParseUint(rep["rem"], 10, 64)
		if rem < r.ELife || rep["probe_before"] != "1" {
			sig := "expires-early:" + kind
			if rep["nchanged"] == "0" {
				sig = "ignored:op=" + rep["op"] + ":" + kind // the handler left the map untouched; the flow is only known from an earlier message
			}
			viol(sig, fmt.Sprintf("the detector's drop_stale_sessions removes the session after %d ns, the station accepts the registration for %d ns", rem, r.ELife), r, rep)
			continue
		}
		if rem != r.ELife || rep["probe_at"] != "0" {
			// an older announcement for the same flow key keeps the longer expiry (documented detector behaviour);
			// forwarding for longer than the station accepts is not what the property forbids
			rc.addCount("detector_keeps_session_longer_than_requested", 1)
		}
		rc.addCount("accepted_and_matching", 1)
		if k := kind + "/" + r.Tr; nsamples[k] < 1 && len(rc.Samples) < 9 {
			nsamples[k]++
			rc.Samples = append(rc.Samples, map[string]interface{}{"monitor": "detector-shim", "case": r.witness(rep)})
		}
	}
	if main {
		c10JudgeLife(rc, sh, distinct)
	}
	rc.addDistinct("nontrivial", int64(len(distinct)))
	var ds []string
	for k := range distinct {
		ds = append(ds, k)
	}
	sort.Strings(ds)
	if len(ds) > 40 {
		ds = append(ds[:40], fmt.Sprintf("… %d more", len(ds)-40))
	}
	if main {
		rc.Extra["classes_seen_sample"] = ds
	}
	if rc.Counts["shutdown_clear_on_nonempty_map"] == shutdownsBefore && len(rc.Violations) == nviolBefore && len(rc.Incon) == 0 {
		rc.Errors = append(rc.Errors, "C10: no Clear after the station's shutdown sequence met a non-empty session map; the lifecycle scenario was not observed")
	}
	if main && rc.Counts["clear_on_nonempty_map"] == clearsBefore && len(rc.Violations) == nviolBefore {
		rc.Errors = append(rc.Errors, "C10: no Clear met a non-empty session map; the shutdown half of the property was not observed")
	}
}

// c10Culprit names, for the signature, the input class the detector's complaint is about.
func c10Culprit(variant string, r *c10Record) string {
	cls := func(c string) string {
		if strings.HasPrefix(c, "len") {
			return "not-4-or-16-bytes"
		}
		return c
	}
	switch variant {
	case "InvalidPhantom":
		return "phantom=" + cls(r.PClass)
	case "InvalidClient":
		return "registrant=" + cls(r.CClass)
	case "UnrecognizedProto":
		return "transport=" + r.Tr
	}
	return "phantom=" + cls(r.PClass) + ",registrant=" + cls(r.CClass)
}

// c10OvShape reduces an override descriptor to its shape (which fields, which address class).
func c10OvShape(ov string) string {
	var out []string
	for _, p := range strings.Split(ov, "+") {
		switch {
		case strings.HasPrefix(p, "port="):
			out = append(out, "port")
		case strings.HasPrefix(p, "ip4="):
			out = append(out, "ip4")
		default:
			out = append(out, p)
		}
	}
	return strings.Join(out, "+")
}

// ---- lifetime agreement over operation sequences -----------------------------------------------------------

// c10JudgeLife replays what the lifetime driver published, at the virtual instants it was published, into the
// detector's own session code and compares, at every lookup that followed a station sweep, "the station still
// serves the registration" with "the detector still diverts the client's flow".
func c10JudgeLife(rc *RunCtx, sh *c10Shim, distinct map[string]bool) {
	fh, err := os.Open(filepath.Join(rc.Work, "announce.0.out", "c10_life_records.jsonl"))
	if err != nil {
		rc.Errors = append(rc.Errors, fmt.Sprintf("C10: the lifetime driver left no records (%v)", err))
		return
	}
	defer fh.Close()
	var in bytes.Buffer
	var looks, seqMsgs, clears, probes []*c10Record
	const probeBase = 1 << 30 // ids of the live-session probes placed before a shutdown record
	probe := func(id int) { fmt.Fprintf(&in, "L\t%d\t-\t-\t0\t0\n", id) }
	msgs := map[int][]*c10Record{} // sequence -> published messages (for the witness)
	seqFam := map[int]string{}
	sc := bufio.NewScanner(fh)
	sc.Buffer(make([]byte, 1<<20), 16<<20)
	for sc.Scan() {
		r := &c10Record{}
		if err := json.Unmarshal(sc.Bytes(), r); err != nil {
			rc.Errors = append(rc.Errors, fmt.Sprintf("C10: unreadable lifetime record: %v", err))
			return
		}
		switch r.T {
		case "R":
			in.WriteString("R\n")
		case "A":
			fmt.Fprintf(&in, "A\t%d\n", r.NS)
		case "Q":
			seqFam[r.Seq] = r.Fam
			rc.addCount("life.sequences", 1)
			rc.addCount("life.sequences_"+r.Fam, 1)
		case "M":
			if r.Kind == "seq-clear" {
				probe(probeBase + r.ID) // how many LIVE sessions does the detector hold when the station shuts down?
				clears = append(clears, r)
			} else {
				seqMsgs = append(seqMsgs, r)
			}
			in.WriteString(c10ShimLine(r))
			in.WriteByte('\n')
			if len(msgs[r.Seq]) < 12 {
				msgs[r.Seq] = append(msgs[r.Seq], r)
			}
			rc.addCount("life.messages_replayed", 1)
		case "P":
			probe(probeBase + r.ID)
			probes = append(probes, r)
		case "U":
			rc.Violations = append(rc.Violations, Violation{Sig: "undecodable:seq", Msg: "the published bytes are not a StationToDetector message", Stage: "announce", Mon: "lifetime-agreement", Detail: r.witness(nil)})
		case "L":
			f := []string{"L", strconv.Itoa(r.ID), "-", r.EPhantom, strconv.Itoa(int(r.EPort)), strconv.Itoa(c10Iana[r.TrProto])}
			if r.EClient != "" {
				f[2] = r.EClient
			}
			in.WriteString(strings.Join(f, "\t"))
			in.WriteByte('\n')
			looks = append(looks, r)
		}
	}
	os.WriteFile(filepath.Join(rc.Work, "c10_life_shim.in"), in.Bytes(), 0o644)
	cmd := exec.Command(sh.Bin)
	cmd.Stdin = &in
	var stdout, stderr bytes.Buffer
	cmd.Stdout, cmd.Stderr = &stdout, &stderr
	if err := cmd.Run(); err != nil {
		rc.Errors = append(rc.Errors, fmt.Sprintf("C10: the detector shim failed on the lifetime records (infrastructure): %v\n%s", err, tail(stderr.String(), 1500)))
		return
	}
	os.WriteFile(filepath.Join(rc.Work, "c10_life_shim.out"), stdout.Bytes(), 0o644)
	replies := map[int]map[string]string{}
	for _, l := range strings.Split(stdout.String(), "\n") {
		if l == "" {
			continue
		}
		m := map[string]string{}
		for _, kv := range strings.Split(l, "\t") {
			if i := strings.IndexByte(kv, '='); i > 0 {
				m[kv[:i]] = kv[i+1:]
			}
		}
		if id, err := strconv.Atoi(m["id"]); err == nil {
			replies[id] = m
		}
	}
	pubWitness := func(seq int) []interface{} {
		var ms []interface{}
		for _, m := range msgs[seq] {
			w := m.witness(nil)
			delete(w, "case")
			delete(w, "state")
			ms = append(ms, w)
		}
		return ms
	}
	// (J) every announcement must be for a registration the station tracks when it publishes it
	for _, r := range seqMsgs {
		rc.addCount("evaluations", 1)
		rc.addCount("life.announcements_checked_tracked_at_publish", 1)
		if r.Tracked != nil && *r.Tracked && r.EPhantom != "" {
			// the message must describe the registration as the station holds it
			suffix := ""
			if r.Stale {
				suffix = ":markactive-on-stale-object"
			}
			op := "message"
			if r.Op != nil {
				op = map[int32]string{0: "unknown-op", 1: "new", 2: "update", 3: "clear"}[*r.Op]
			}
			bad := func(field, got, want string) {
				w := r.witness(replies[r.ID])
				w["sequence_so_far"], w["family"] = r.Ops, r.Fam
				w["tracked_registration"] = map[string]interface{}{"phantom": c10IPText(r.EPhantom), "registrant": c10IPText(r.EClient), "dst_port": r.EPort}
				rc.Violations = append(rc.Violations, Violation{Sig: "seq:mismatch:" + field + ":" + op + suffix,
					Msg:   fmt.Sprintf("the %s announcement carries %s %s, the registration the station tracks has %s [%s]", op, field, got, want, r.Ops),
					Stage: "announce", Mon: "lifetime-agreement", Detail: w})
			}
			if ePh, ok := c10Addr(r.EPhantom); ok && r.Phantom != nil {
				if g, err := netip.ParseAddr(*r.Phantom); err != nil || g.Unmap() != ePh {
					bad("phantom", *r.Phantom, c10IPText(r.EPhantom))
				}
			}
			if eCl, ok := c10Addr(r.EClient); ok && r.Client != nil && r.EClient != strings.Repeat("00", 16) {
				if g, err := netip.ParseAddr(*r.Client); err != nil || g.Unmap() != eCl {
					bad("client", *r.Client, c10IPText(r.EClient))
				}
			}
			if r.DPort != nil && *r.DPort != r.EPort {
				bad("port", fmt.Sprint(*r.DPort), fmt.Sprint(r.EPort))
			}
		}
		if r.Tracked != nil && !*r.Tracked {
			op := "message"
			if r.Op != nil {
				op = map[int32]string{0: "unknown-op", 1: "new", 2: "update", 3: "clear"}[*r.Op]
			}
			w := r.witness(replies[r.ID])
			w["sequence_so_far"], w["family"] = r.Ops, r.Fam
			rc.Violations = append(rc.Violations, Violation{Sig: op + "-for-registration-not-tracked",
				Msg:   fmt.Sprintf("the station published an announcement (%s) for a registration it does not track (RegistrationExists is nil right after the publish) [%s]", op, r.Ops),
				Stage: "announce", Mon: "lifetime-agreement", Detail: w})
		}
	}
	// (I) the shutdown at the end of every sequence
	for _, r := range clears {
		rep, pr := replies[r.ID], replies[probeBase+r.ID]
		if rep == nil || pr == nil {
			rc.Errors = append(rc.Errors, fmt.Sprintf("C10: the shim gave no reply for shutdown record %d", r.ID))
			return
		}
		live, _ := strconv.Atoi(pr["len"])
		la, _ := strconv.Atoi(rep["len_after"])
		rc.addCount("life.shutdowns", 1)
		if live == 0 {
			rc.addCount("life.shutdowns_detector_had_no_live_session_undecidable", 1)
			if la == 0 {
				continue
			}
		}
		rc.addCount("evaluations", 1)
		rc.addCount("life.shutdowns_judged_detector_held_live_sessions", 1)
		rc.addCount("life.shutdowns_judged_registry_"+r.Registry, 1)
		distinct["shutdown/"+r.Registry+"/"+r.Fam] = true
		if la != 0 {
			why := "op=" + rep["op"]
			if rep["parse"] != "ok" && rep["op"] != "Clear" {
				why = "rejected-" + rep["parse"]
			}
			w := r.witness(rep)
			w["live_sessions_before"], w["registry"], w["everything_published_in_this_sequence"] = live, r.Registry, pubWitness(r.Seq)
			rc.Violations = append(rc.Violations, Violation{Sig: "seq-clear:not-acted-on:" + why, Msg: fmt.Sprintf("after the shutdown Clear the detector still holds %d sessions [%s]", la, r.Ops),
				Stage: "announce", Mon: "lifetime-agreement", Detail: w})
		}
	}
	for _, r := range probes {
		pr := replies[probeBase+r.ID]
		if pr == nil {
			rc.Errors = append(rc.Errors, fmt.Sprintf("C10: the shim gave no reply for shutdown probe %d", r.ID))
			return
		}
		live, _ := strconv.Atoi(pr["len"])
		rc.addCount("life.shutdowns", 1)
		if live == 0 {
			rc.addCount("life.shutdowns_without_clear_detector_map_empty", 1) // nothing this launch announced is left: no harm observable
			continue
		}
		rc.addCount("evaluations", 1)
		rc.Violations = append(rc.Violations, Violation{Sig: "clear:not-published-at-shutdown:registry=" + r.Registry,
			Msg:   fmt.Sprintf("the station shut down without publishing a Clear while the detector still diverts %d session(s) this launch announced [%s]", live, r.Ops),
			Stage: "announce", Mon: "lifetime-agreement", Detail: map[string]interface{}{"sequence": r.Ops, "family": r.Fam, "shutdown": r.Case, "registry": r.Registry,
				"virtual_time": time.Duration(r.VT).String(), "live_detector_sessions": live, "detector_reply": pr, "everything_published_in_this_sequence": pubWitness(r.Seq)}})
	}
	windowSeqs, windowSeqsFam := map[int]bool{}, map[string]int{}
	nsample := 0
	for _, r := range looks {
		rep := replies[r.ID]
		if rep == nil || rep["lookup"] != "1" {
			rc.Errors = append(rc.Errors, fmt.Sprintf("C10: the shim gave no reply for lookup %d", r.ID))
			return
		}
		if rep["flow"] != "ok" {
			rc.addCount("life.lookups_without_flow", 1)
			continue
		}
		rc.addCount("evaluations", 1)
		rc.addCount("life.lookups_judged", 1)
		tracked := rep["tracked"] == "1"
		if r.Window {
			rc.addCount("life.lookups_in_critical_window", 1)
			if !windowSeqs[r.Seq] {
				windowSeqs[r.Seq] = true
				windowSeqsFam[r.Fam]++
			}
		}
		if r.State == "" {
			r.State = "announced-under-another-registration" // same phantom and identifier as a registration delivered earlier
		}
		shape := "no-redelivery"
		if r.HadDup {
			shape = "after-redelivery"
		}
		if r.Stale {
			shape = "after-markactive-on-stale-object"
		}
		distinct[fmt.Sprintf("lookup/%s/%s/station=%t/detector=%t/window=%t/%s", r.State, shape, r.Holds, tracked, r.Window, r.Fam)] = true
		witness := func() map[string]interface{} {
			var ms []interface{}
			for _, m := range msgs[r.Seq] {
				w := m.witness(nil)
				delete(w, "case")
				delete(w, "state")
				ms = append(ms, w)
			}
			return map[string]interface{}{
				"sequence": r.Ops, "family": r.Fam, "registration_index": r.Reg, "registration": r.Case, "virtual_time": time.Duration(r.VT).String(),
				"state_announced_last": r.State, "since_that_announcement": time.Duration(r.AgeAnn).String(), "station_lifetime_for_state": time.Duration(r.ELife).String(),
				"redelivered_since": r.HadDup, "since_last_redelivery": time.Duration(r.AgeDup).String(),
				"station_serves_registration_after_sweep": r.Holds, "detector_diverts_flow": tracked, "detector_reply": rep,
				"flow":                                  map[string]interface{}{"client": c10IPText(r.EClient), "phantom": c10IPText(r.EPhantom), "port": r.EPort, "ip_proto": c10Iana[r.TrProto]},
				"everything_published_in_this_sequence": ms,
			}
		}
		switch {
		case r.Holds && !tracked:
			rc.Violations = append(rc.Violations, Violation{Sig: "lifetime-agreement:station-serves-detector-dropped:" + r.State + ":" + shape,
				Msg:   fmt.Sprintf("%v into the sequence the station (after its sweep) still serves the registration, but the detector, fed with everything the station published, no longer diverts its client's flow [%s]", time.Duration(r.VT), r.Ops),
				Stage: "announce", Mon: "lifetime-agreement", Detail: witness()})
		case r.Holds:
			rc.addCount("life.lookups_station_serves_detector_diverts", 1)
			if nsample < 2 && r.HadDup && len(rc.Samples) < 12 {
				nsample++
				rc.Samples = append(rc.Samples, map[string]interface{}{"monitor": "lifetime-agreement", "case": witness()})
			}
		case tracked && r.AnnUntracked:
			// not the harmless kind: the session exists because the station announced something it does not hold
			rc.Violations = append(rc.Violations, Violation{Sig: "lifetime-agreement:detector-diverts-for-announcement-station-never-held:" + r.State,
				Msg:   fmt.Sprintf("%v into the sequence the detector diverts the client's flow because of a message published while the station did not track the registration; the station serves nothing for it [%s]", time.Duration(r.VT), r.Ops),
				Stage: "announce", Mon: "lifetime-agreement", Detail: witness()})
		case tracked:
			rc.addCount("life.lookups_detector_outlives_station_harmless", 1)
		default:
			rc.addCount("life.lookups_both_gone", 1)
			if nsample < 3 && r.Window && len(rc.Samples) < 12 {
				nsample++
				rc.Samples = append(rc.Samples, map[string]interface{}{"monitor": "lifetime-agreement", "case": witness()})
			}
		}
	}
	rc.addCount("life.sequences_with_redelivery_then_lookup_in_critical_window", int64(len(windowSeqs)))
	for f, n := range windowSeqsFam {
		rc.addCount("life.sequences_with_redelivery_then_lookup_in_critical_window_"+f, int64(n))
	}
	rc.addDistinct("life.sequences", rc.Counts["life.sequences"])
	if len(windowSeqs) == 0 || rc.Counts["life.lookups_station_serves_detector_diverts"] == 0 {
		if len(rc.Violations) == 0 {
			rc.Errors = append(rc.Errors, "C10: the lifetime monitor never looked inside the critical window after a re-delivery (or never saw a served registration); it observed too little")
		}
	}
}

// ---- the shutdown Clear while ingest workers are busy -----------------------------------------------------

// c10JudgeBusy replays, launch by launch, everything a station launch published (in the order the stand-in Redis
// received it) into the detector's own code.  The launch ended with the shutdown sequence of cmd/application/main.go;
// the next launch starts with an empty registry, so whatever the detector still diverts after the last message is a
// diversion the restarted station knows nothing about.
func c10JudgeBusy(rc *RunCtx, sh *c10Shim) {
	fh, err := os.Open(filepath.Join(rc.Work, "announce.0.out", "c10_busy_records.jsonl"))
	if err != nil {
		rc.Errors = append(rc.Errors, fmt.Sprintf("C10: the busy-shutdown driver left no records (%v)", err))
		return
	}
	defer fh.Close()
	const probeBase = 1 << 30
	type launch struct {
		end  *c10Record
		msgs []*c10Record
	}
	var launches []*launch
	cur := &launch{}
	var in bytes.Buffer
	sc := bufio.NewScanner(fh)
	sc.Buffer(make([]byte, 1<<20), 16<<20)
	for sc.Scan() {
		r := &c10Record{}
		if err := json.Unmarshal(sc.Bytes(), r); err != nil {
			rc.Errors = append(rc.Errors, fmt.Sprintf("C10: unreadable busy-shutdown record: %v", err))
			return
		}
		switch r.T {
		case "R":
			in.WriteString("R\n")
			cur = &launch{}
		case "M":
			in.WriteString(c10ShimLine(r))
			in.WriteByte('\n')
			cur.msgs = append(cur.msgs, r)
		case "U":
			rc.Violations = append(rc.Violations, Violation{Sig: "undecodable:launch-msg", Msg: "the published bytes are not a StationToDetector message", Stage: "announce", Mon: "busy-shutdown", Detail: r.witness(nil)})
		case "E":
			fmt.Fprintf(&in, "L\t%d\t-\t-\t0\t0\n", probeBase+r.ID)
			cur.end = r
			launches = append(launches, cur)
		}
	}
	os.WriteFile(filepath.Join(rc.Work, "c10_busy_shim.in"), in.Bytes(), 0o644)
	cmd := exec.Command(sh.Bin)
	cmd.Stdin = &in
	var stdout, stderr bytes.Buffer
	cmd.Stdout, cmd.Stderr = &stdout, &stderr
	if err := cmd.Run(); err != nil {
		rc.Errors = append(rc.Errors, fmt.Sprintf("C10: the detector shim failed on the busy-shutdown records (infrastructure): %v\n%s", err, tail(stderr.String(), 1500)))
		return
	}
	os.WriteFile(filepath.Join(rc.Work, "c10_busy_shim.out"), stdout.Bytes(), 0o644)
	replies := map[int]map[string]string{}
	for _, l := range strings.Split(stdout.String(), "\n") {
		if l == "" {
			continue
		}
		m := map[string]string{}
		for _, kv := range strings.Split(l, "\t") {
			if i := strings.IndexByte(kv, '='); i > 0 {
				m[kv[:i]] = kv[i+1:]
			}
		}
		if id, err := strconv.Atoi(m["id"]); err == nil {
			replies[id] = m
		}
	}
	opName := func(r *c10Record) string {
		if r.Op == nil {
			return "no-op-field"
		}
		if n, ok := map[int32]string{0: "Unknown", 1: "New", 2: "Update", 3: "Clear"}[*r.Op]; ok {
			return n
		}
		return fmt.Sprintf("op%d", *r.Op)
	}
	judged, sampled := 0, 0
	distinct := map[string]bool{}
	for _, l := range launches {
		pr := replies[probeBase+l.end.ID]
		if pr == nil {
			rc.Errors = append(rc.Errors, fmt.Sprintf("C10: the shim gave no reply for the end of launch %d", l.end.ID))
			return
		}
		left, _ := strconv.Atoi(pr["len"])
		// the order of what was published, and what the detector's map held after each message
		var order, afterClear []string
		var hist []interface{}
		peak, lastClear := 0, -1
		for i, m := range l.msgs {
			rep := replies[m.ID]
			if rep == nil {
				rc.Errors = append(rc.Errors, fmt.Sprintf("C10: the shim gave no reply for message %d", m.ID))
				return
			}
			rc.addCount("evaluations", 1)
			rc.addCount("busy.messages_replayed", 1)
			la, _ := strconv.Atoi(rep["len_after"])
			if la > peak {
				peak = la
			}
			order = append(order, opName(m))
			if opName(m) == "Clear" {
				lastClear = i
			}
			w := m.witness(nil)
			delete(w, "case")
			delete(w, "state")
			w["detector_sessions_after"] = la
			hist = append(hist, w)
		}
		for i := lastClear + 1; lastClear >= 0 && i < len(l.msgs); i++ {
			afterClear = append(afterClear, opName(l.msgs[i]))
		}
		rc.addCount("busy.launches", 1)
		if l.end.Stale {
			rc.addCount("busy.launches_pipeline_returned_while_workers_were_scanning", 1)
		}
		if peak == 0 && left == 0 {
			rc.addCount("busy.launches_detector_map_never_populated_undecidable", 1)
			continue
		}
		rc.addCount("evaluations", 1)
		judged++
		distinct[fmt.Sprintf("launch/workers=%d/scanning-at-stop=%d/%s", l.end.Seq, l.end.Reg, l.end.Fam)] = true
		detail := map[string]interface{}{"launch": l.end.Case, "observed": l.end.Ops, "published_in_order": strings.Join(order, " "),
			"everything_published_in_this_launch": hist, "detector_sessions_after_the_last_message": left, "detector_reply": pr}
		if left == 0 {
			rc.addCount("busy.launches_detector_left_empty", 1)
			if sampled < 2 && len(rc.Samples) < 14 {
				sampled++
				rc.Samples = append(rc.Samples, map[string]interface{}{"monitor": "busy-shutdown", "case": detail})
			}
			continue
		}
		why := "no-Clear-published"
		switch {
		case lastClear >= 0 && len(afterClear) > 0:
			seen := map[string]bool{}
			var kinds []string
			for _, o := range afterClear {
				if !seen[o] {
					seen[o] = true
					kinds = append(kinds, o)
				}
			}
			sort.Strings(kinds)
			why = strings.Join(kinds, "+") + "-published-after-the-Clear"
		case lastClear >= 0:
			why = "Clear-not-acted-on"
		}
		rc.Violations = append(rc.Violations, Violation{Sig: "launch-end:detector-still-diverts:" + why + ":" + l.end.Fam,
			Msg: fmt.Sprintf("after everything the station launch published (shutdown: cancel, wait for HandleRegUpdates, Cleanup) the detector still diverts %d session(s) the next launch knows nothing about; published in this order: %s",
				left, strings.Join(order, " ")),
			Stage: "announce", Mon: "busy-shutdown", Detail: detail})
	}
	rc.addDistinct("nontrivial", int64(len(distinct)))
	if judged == 0 && len(rc.Violations) == 0 && len(rc.Incon) == 0 {
		rc.Errors = append(rc.Errors, "C10: no station launch with busy ingest workers at the stop request was replayed; the busy-shutdown scenario was not observed")
	}
}
