package main

import "time"

func init() {
	register(&Prop{
		ID: "C08", Level: "exploration", Floor: 100000,
		Rule: "a case = one history over {register (duplicate when already tracked), validate, connect, advance 4m/7m/3h/4h, sweep, look up} executed from an empty registry on the real " +
			"RegistrationManager with an executable reference map alongside; evaluations = histories executed; a history is non-trivial when at least one sweep in it had a tracked " +
			"registration to decide on; distinct_nontrivial = distinct (operation-kind sequence, keep/expire decision counts) among those; " +
			"handler stage: a case = (wrapping transport, where the client pauses inside its first flight, registration unused/used, what happens during the pause) run through the real handleNewTCPConn with covert listeners as dial recorders",
		Assumptions: []string{
			"time is simulated by back-dating registrationTime of every timeout record in whole minutes; all ages are whole minutes, an age exactly on a limit accepts either outcome, a history that takes more than 30 s of real time is not judged",
			"the reference expires registrations only at a sweep (the statement's 'after a clean-up sweep'); a registration past its lifetime that has not been swept yet may be present or absent, and may or may not still match",
			"a duplicate delivery does not renew the lifetime (the code and the statement's 'younger than' agree)",
			"handler stage: a registration past its lifetime that no sweep has visited is counted, not judged; a live registration's connection that is not proxied is 'inconclusive' when the handler's own 5-10 s real-time deadline may be the reason",
			"the detector announcements are replaced by counters (registerForDetector / updateInDetector are fields meant for that); the detector side is C10",
		},
		Stages: []Stage{
			{Name: "exhaustive", Pkg: "./pkg/station/lib", Run: "^TestVerifC08Exhaustive$", Drivers: []string{"lib"}, Exports: []string{"cdtls"}, TimeoutQ: 10 * time.Minute, TimeoutT: 60 * time.Minute},
			{Name: "random", Pkg: "./pkg/station/lib", Run: "^TestVerifC08Random$", Drivers: []string{"lib"}, Exports: []string{"cdtls"}, TimeoutQ: 10 * time.Minute, TimeoutT: 60 * time.Minute},
			{Name: "handler", Dir: "cmd/application", Pkg: ".", Run: "^TestVerifC08Handler$", Drivers: []string{"app"}, Exports: []string{"lib"}, TimeoutQ: 10 * time.Minute, TimeoutT: 40 * time.Minute},
		},
	})
}
