package main

import (
	"bufio"
	"bytes"
	"encoding/json"
	"fmt"
	"os"
	"os/exec"
	"path/filepath"
	"regexp"
	"sort"
	"strings"
	"syscall"
	"time"
)

// driver directory (under /verif/drivers) -> package directory in the repository
var driverPkg = map[string]string{
	"kit":             "internal/verifkit",
	"lib":             "pkg/station/lib",
	"app":             "cmd/application",
	"liveness":        "pkg/station/liveness",
	"phantoms":        "pkg/phantoms",
	"regproc":         "pkg/regserver/regprocessor",
	"regserver":       "cmd/registration-server",
	"apireg":          "pkg/regserver/apiregserver",
	"dnsreg":          "pkg/regserver/dnsregserver",
	"dtls":            "pkg/dtls",
	"assets":          "pkg/client/assets",
	"transports":      "pkg/transports",
	"msgformat":       "pkg/registrars/dns-registrar/msgformat",
	"dns":             "pkg/registrars/dns-registrar/dns",
	"requester":       "pkg/registrars/dns-registrar/requester",
	"responder":       "pkg/registrars/dns-registrar/responder",
	"encryption":      "pkg/registrars/dns-registrar/encryption",
	"min":             "pkg/transports/wrapping/min",
	"prefix":          "pkg/transports/wrapping/prefix",
	"obfs4":           "pkg/transports/wrapping/obfs4",
	"cdtls":           "pkg/transports/connecting/dtls",
	"internal":        "internal",
	"overrides":       "pkg/regserver/overrides",
	"export/lib":      "pkg/station/lib",
	"export/cdtls":    "pkg/transports/connecting/dtls",
	"export/prefix":   "pkg/transports/wrapping/prefix",
	"export/obfs4":    "pkg/transports/wrapping/obfs4",
	"export/regproc":  "pkg/regserver/regprocessor",
	"export/phantoms": "pkg/phantoms",
	"export/dtls":     "pkg/dtls",
}

// Stage is one child-process run of a driver.
type Stage struct {
	Name              string
	Dir               string   // module directory relative to the repository ("" = root, "cmd/application")
	Pkg               string   // package pattern relative to Dir, e.g. "./pkg/station/lib"
	Run               string   // -test.run regexp
	Race              bool     // build with -race; race reports are harvested from the log
	Drivers           []string // driver directories to overlay (the kit is always added)
	Exports           []string // export shims to inject: names under drivers/export/ (e.g. "lib", "dtls")
	Files             []string // extra file-name substrings to select in the driver dirs (default: the property id)
	Env               []string
	Netns             bool // run inside `unshare -n` with lo up
	TimeoutQ          time.Duration
	TimeoutT          time.Duration
	ThoroughOnly      bool
	QuickOnly         bool
	HangIsViol        bool // a test-binary timeout is a violation of this property (else: infrastructure error)
	CrashIsViol       bool // a panic in the child is a violation (default true via props init)
	NoCrashViol       bool
	SignalDeathIsViol []string                  // the child dying of one of these signals (e.g. "hangup") is a violation: the stage delivers them to the program under test
	RaceFilter        func(r RaceReport) bool   // which race reports are attributed to the property (nil = all)
	RaceSig           func(r RaceReport) string // optional canonical signature for a family of reports ("" = default pair key)
	Repeat            int                       // run the binary this many times (quick), RepeatT (thorough)
	RepeatT           int
	Parallel          int // -test.parallel
	Args              []string
}

// Prop is the registration of a property check.
type Prop struct {
	ID          string
	Level       string
	Rule        string
	Assumptions []string
	Floor       int64
	Stages      []Stage
	Post        func(rc *RunCtx)
}

var props = map[string]*Prop{}

func register(p *Prop) { props[p.ID] = p }

func baseEnv() []string {
	var env []string
	for _, e := range os.Environ() {
		k := strings.SplitN(e, "=", 2)[0]
		switch k {
		case "GOFLAGS", "GOPROXY", "GOSUMDB", "GOTOOLCHAIN", "GOWORK", "VERIF_SEED", "VERIF_TIER", "VERIF_OUT", "GORACE", "CJ_STATION_CONFIG", "PHANTOM_SUBNET_LOCATION", "LOG_CLIENT_IP":
			continue
		}
		env = append(env, e)
	}
	return append(env, "GOFLAGS=", "GOPROXY=off", "GOSUMDB=off", "GOTOOLCHAIN=local")
}

func (rc *RunCtx) overlay(st *Stage) (string, error) {
	repl := map[string]string{}
	add := func(drv string, sel func(name string) bool) error {
		pkg, ok := driverPkg[drv]
		if !ok {
			return fmt.Errorf("unknown driver dir %q", drv)
		}
		src := filepath.Join(verifDir, "drivers", drv)
		ents, err := os.ReadDir(src)
		if err != nil {
			if os.IsNotExist(err) {
				return nil
			}
			return err
		}
		for _, e := range ents {
			if e.IsDir() || !strings.HasSuffix(e.Name(), ".go") {
				continue
			}
			if sel != nil && !sel(e.Name()) {
				continue
			}
			dst := filepath.Join(repoDir, pkg, e.Name())
			if _, err := os.Lstat(dst); err == nil {
				return fmt.Errorf("overlay would replace an existing repository file %s", dst)
			}
			repl[dst] = filepath.Join(src, e.Name())
		}
		return nil
	}
	if err := add("kit", nil); err != nil {
		return "", err
	}
	for _, x := range st.Exports {
		if err := add("export/"+x, nil); err != nil {
			return "", err
		}
	}
	id := strings.ToLower(rc.Prop.ID)
	for _, drv := range st.Drivers {
		err := add(drv, func(name string) bool {
			if strings.Contains(name, "common") || strings.Contains(name, "_"+id+"_") || strings.Contains(name, "_"+id+".") {
				return true
			}
			for _, f := range st.Files {
				if strings.Contains(name, f) {
					return true
				}
			}
			return false
		})
		if err != nil {
			return "", err
		}
	}
	b, _ := json.MarshalIndent(map[string]interface{}{"Replace": repl}, "", " ")
	p := filepath.Join(rc.Work, st.Name+".overlay.json")
	return p, os.WriteFile(p, b, 0o644)
}

func (rc *RunCtx) runStage(st *Stage) {
	info := map[string]interface{}{"stage": st.Name, "pkg": st.Pkg, "race": st.Race}
	defer func() { rc.StageInfo = append(rc.StageInfo, info) }()
	t0 := time.Now()
	ov, err := rc.overlay(st)
	if err != nil {
		rc.Errors = append(rc.Errors, fmt.Sprintf("stage %s: %v", st.Name, err))
		return
	}
	modDir := filepath.Join(repoDir, st.Dir)
	bin := filepath.Join(rc.Work, st.Name+".test")
	args := []string{"test", "-c", "-tags", "verif", "-vet=off", "-overlay=" + ov, "-o", bin}
	if st.Race {
		args = append(args, "-race")
	}
	args = append(args, st.Pkg)
	cmd := exec.Command("go", args...)
	cmd.Dir = modDir
	cmd.Env = baseEnv()
	out, err := cmd.CombinedOutput()
	info["build_s"] = time.Since(t0).Seconds()
	if err != nil {
		os.WriteFile(filepath.Join(rc.Work, st.Name+".build.out"), out, 0o644)
		msg := string(out)
		if len(msg) > 3000 {
			msg = msg[:3000]
		}
		rc.Errors = append(rc.Errors, fmt.Sprintf("stage %s: build failed (infrastructure, not a verdict): %v\n%s", st.Name, err, msg))
		return
	}

	reps := st.Repeat
	if rc.thorough() && st.RepeatT > 0 {
		reps = st.RepeatT
	}
	if reps < 1 {
		reps = 1
	}
	for rep := 0; rep < reps; rep++ {
		rc.runBinary(st, bin, rep, info)
		if len(rc.Errors) > 0 {
			break
		}
	}
	info["wall_s"] = time.Since(t0).Seconds()
}

func (rc *RunCtx) runBinary(st *Stage, bin string, rep int, info map[string]interface{}) {
	tag := fmt.Sprintf("%s.%d", st.Name, rep)
	outDir := filepath.Join(rc.Work, tag+".out")
	os.MkdirAll(outDir, 0o755)
	to := st.TimeoutQ
	if rc.thorough() && st.TimeoutT > 0 {
		to = st.TimeoutT
	}
	if to == 0 {
		to = 10 * time.Minute
	}
	pkgDir := filepath.Join(repoDir, st.Dir, strings.TrimPrefix(st.Pkg, "./"))
	targs := []string{"-test.run", st.Run, "-test.timeout", to.String(), "-test.count", "1", "-test.v"}
	if st.Parallel > 0 {
		targs = append(targs, "-test.parallel", fmt.Sprint(st.Parallel))
	}
	targs = append(targs, st.Args...)
	var cmd *exec.Cmd
	if st.Netns {
		sh := "ip link set lo up 2>/dev/null; exec \"$0\" \"$@\""
		cmd = exec.Command("unshare", append([]string{"-n", "sh", "-c", sh, bin}, targs...)...)
	} else {
		cmd = exec.Command(bin, targs...)
	}
	cmd.Dir = pkgDir
	env := append(baseEnv(), fmt.Sprintf("VERIF_SEED=%d", rc.Seed+int64(rep)*1000003), "VERIF_TIER="+rc.Tier, "VERIF_OUT="+outDir,
		"VERIF_DIR="+verifDir, "VERIF_REPO="+repoDir, fmt.Sprintf("VERIF_REP=%d", rep))
	raceLog := filepath.Join(outDir, "race")
	if st.Race {
		env = append(env, "GORACE=halt_on_error=0 log_path="+raceLog+" history_size=3")
	}
	env = append(env, st.Env...)
	cmd.Env = env
	outPath := filepath.Join(rc.Work, tag+".stdout")
	outF, _ := os.Create(outPath)
	cmd.Stdout = outF
	cmd.Stderr = outF
	cmd.SysProcAttr = &syscall.SysProcAttr{Setpgid: true}
	t0 := time.Now()
	err := cmd.Start()
	if err != nil {
		rc.Errors = append(rc.Errors, fmt.Sprintf("stage %s: cannot start: %v", st.Name, err))
		return
	}
	done := make(chan error, 1)
	go func() { done <- cmd.Wait() }()
	killed := false
	select {
	case err = <-done:
	case <-time.After(to + 60*time.Second):
		syscall.Kill(-cmd.Process.Pid, syscall.SIGQUIT)
		select {
		case err = <-done:
		case <-time.After(20 * time.Second):
			syscall.Kill(-cmd.Process.Pid, syscall.SIGKILL)
			err = <-done
		}
		killed = true
	}
	outF.Close()
	info[fmt.Sprintf("run%d_s", rep)] = time.Since(t0).Seconds()
	output, _ := os.ReadFile(outPath)

	rc.collect(st, outDir)

	nraces := 0
	if st.Race {
		reports := parseRaceLogs(raceLog)
		reports = append(reports, parseRaceText(string(output))...)
		nraces = len(reports)
		rc.addCount("race_reports_raw", int64(len(reports)))
		seen := map[string]bool{}
		for _, r := range reports {
			if st.RaceFilter != nil && !st.RaceFilter(r) {
				rc.addCount("race_reports_unattributed", 1)
				continue
			}
			sig := "race:" + r.Key()
			if st.RaceSig != nil {
				if c := st.RaceSig(r); c != "" {
					sig = "race:" + c
				}
			}
			if seen[sig] {
				continue
			}
			seen[sig] = true
			dump := filepath.Join(verifDir, "replays", rc.Prop.ID, "race-"+sanitize(r.Key())+".txt")
			os.MkdirAll(filepath.Dir(dump), 0o755)
			os.WriteFile(dump, []byte(r.Text), 0o644)
			rc.Violations = append(rc.Violations, Violation{Sig: sig, Msg: "data race: " + r.Key(), Stage: st.Name, Mon: "race-detector", Detail: r.Summary(), Extra: dump})
		}
	}

	if err == nil {
		return
	}
	// the child failed: classify
	text := string(output)
	saveDump := func(kind string) string {
		p := filepath.Join(verifDir, "replays", rc.Prop.ID, fmt.Sprintf("%s-%s-s%d.txt", kind, st.Name, rc.Seed))
		os.MkdirAll(filepath.Dir(p), 0o755)
		t := text
		if len(t) > 400000 {
			t = t[:200000] + "\n...\n" + t[len(t)-200000:]
		}
		os.WriteFile(p, []byte(t), 0o644)
		return p
	}
	last := rc.lastCases(outDir)
	switch {
	case killed || strings.Contains(text, "panic: test timed out"):
		p := saveDump("hang")
		if st.HangIsViol {
			rc.Violations = append(rc.Violations, Violation{Sig: "hang:" + st.Name, Msg: "the driver did not finish within its (generous) bound; goroutine dump saved", Stage: st.Name, Mon: "watchdog", Detail: last, Extra: p})
		} else {
			rc.Errors = append(rc.Errors, fmt.Sprintf("stage %s: timed out after %v (inconclusive; dump in %s)", st.Name, to, p))
		}
	case strings.Contains(text, "panic:") || strings.Contains(text, "fatal error:") || strings.Contains(text, "unexpected signal") || strings.Contains(text, "SIGSEGV"):
		p := saveDump("crash")
		if st.NoCrashViol {
			rc.Errors = append(rc.Errors, fmt.Sprintf("stage %s: child crashed (see %s)", st.Name, p))
		} else {
			rc.Violations = append(rc.Violations, Violation{Sig: "crash:" + st.Name + ":" + crashSite(text), Msg: "the process under monitoring crashed: " + firstPanicLine(text), Stage: st.Name, Mon: "process-survival", Detail: last, Extra: p})
		}
	case signalDeath(err, st.SignalDeathIsViol) != "":
		p := saveDump("crash")
		sg := signalDeath(err, st.SignalDeathIsViol)
		rc.Violations = append(rc.Violations, Violation{Sig: "crash:" + st.Name + ":killed-by-signal:" + sg, Msg: "the program under monitoring was killed by the signal '" + sg + "' that the stage delivers to it (its handler was not installed at that moment)", Stage: st.Name, Mon: "process-survival", Detail: last, Extra: p})
	case st.Race && nraces > 0 && (!strings.Contains(text, "--- FAIL") || strings.Contains(text, "race detected during execution of test")):
		// exit code 66 from the race runtime, or the testing package failing the test because of the
		// race reports: already harvested above
	default:
		p := saveDump("fail")
		rc.Errors = append(rc.Errors, fmt.Sprintf("stage %s: driver failed: %v (see %s)\n%s", st.Name, err, p, tail(text, 1500)))
	}
}

// signalDeath returns the signal name if the child was terminated by one of the listed signals ("signal: hangup").
func signalDeath(err error, sigs []string) string {
	if err == nil {
		return ""
	}
	for _, sg := range sigs {
		if strings.Contains(err.Error(), "signal: "+sg) {
			return sg
		}
	}
	return ""
}

func tail(s string, n int) string {
	if len(s) <= n {
		return s
	}
	return s[len(s)-n:]
}

func sanitize(s string) string {
	return regexp.MustCompile(`[^A-Za-z0-9_.-]+`).ReplaceAllString(s, "_")
}

func firstPanicLine(text string) string {
	for _, l := range strings.Split(text, "\n") {
		if strings.HasPrefix(l, "panic:") || strings.HasPrefix(l, "fatal error:") {
			if len(l) > 300 {
				l = l[:300]
			}
			return l
		}
	}
	return "?"
}

var frameRe = regexp.MustCompile(`^(github\.com/refraction-networking/conjure[^\s(]*)\(`)

// crashSite returns the innermost repository frame (not a driver frame) after the panic line.
func crashSite(text string) string {
	idx := strings.Index(text, "panic:")
	if idx < 0 {
		idx = strings.Index(text, "fatal error:")
	}
	if idx < 0 {
		return "?"
	}
	for _, l := range strings.Split(text[idx:], "\n") {
		if m := frameRe.FindStringSubmatch(l); m != nil {
			fn := m[1]
			if strings.Contains(fn, "verif") || strings.Contains(fn, "Verif") {
				continue
			}
			return strings.TrimPrefix(fn, "github.com/refraction-networking/conjure/")
		}
	}
	return "?"
}

func (rc *RunCtx) lastCases(outDir string) interface{} {
	m := map[string]interface{}{}
	files, _ := filepath.Glob(filepath.Join(outDir, "*.lastcase"))
	for _, f := range files {
		b, _ := os.ReadFile(f)
		var v interface{}
		json.Unmarshal(b, &v)
		m[filepath.Base(f)] = v
	}
	return m
}

type kitEvent struct {
	T      int64           `json:"t"`
	K      string          `json:"k"`
	Prop   string          `json:"prop"`
	Mon    string          `json:"mon"`
	Sig    string          `json:"sig"`
	Msg    string          `json:"msg"`
	Detail json.RawMessage `json:"detail"`
}
type kitSummary struct {
	Counts       map[string]int64 `json:"counts"`
	Distinct     map[string]int64 `json:"distinct"`
	Samples      []interface{}    `json:"samples"`
	Violations   int64            `json:"violations"`
	Inconclusive int64            `json:"inconclusive"`
	Exhaustive   []string         `json:"exhaustive"`
	Notes        []string         `json:"notes"`
}

// collect reads the event logs the drivers wrote.
func (rc *RunCtx) collect(st *Stage, outDir string) {
	files, _ := filepath.Glob(filepath.Join(outDir, "*.jsonl"))
	sort.Strings(files)
	for _, f := range files {
		fh, err := os.Open(f)
		if err != nil {
			continue
		}
		sc := bufio.NewScanner(fh)
		sc.Buffer(make([]byte, 1<<20), 64<<20)
		for sc.Scan() {
			var e kitEvent
			if json.Unmarshal(sc.Bytes(), &e) != nil {
				continue
			}
			switch e.K {
			case "violation":
				var d interface{}
				json.Unmarshal(e.Detail, &d)
				rc.Violations = append(rc.Violations, Violation{Sig: e.Sig, Msg: e.Msg, Stage: st.Name, Mon: e.Mon, Detail: d})
			case "inconclusive":
				rc.Incon = append(rc.Incon, fmt.Sprintf("[%s/%s] %s %s", st.Name, e.Mon, e.Msg, string(e.Detail)))
			case "summary":
				var s kitSummary
				if json.Unmarshal(e.Detail, &s) != nil {
					continue
				}
				for k, v := range s.Counts {
					if k == "evaluations" {
						rc.addCount("evaluations", v)
					}
					rc.addCount(e.Mon+"."+k, v)
				}
				for k, v := range s.Distinct {
					if k == "nontrivial" {
						rc.addDistinct("nontrivial", v)
					}
					rc.addDistinct(e.Mon+"."+k, v)
				}
				for _, smp := range s.Samples {
					rc.Samples = append(rc.Samples, map[string]interface{}{"monitor": e.Mon, "case": smp})
				}
				for _, x := range s.Exhaustive {
					rc.Exhaustive = append(rc.Exhaustive, e.Mon+": "+x)
				}
				for _, x := range s.Notes {
					rc.Notes = append(rc.Notes, e.Mon+": "+x)
				}
				// violations beyond the 5 written in full per signature are visible via the count
				rc.addCount(e.Mon+".violations_total", s.Violations)
			}
		}
		fh.Close()
	}
}

// ---- race reports -------------------------------------------------------------------------------

// RaceReport is one "WARNING: DATA RACE" block.
type RaceReport struct {
	Text   string
	Stacks [][]string // function names per stack (first two are the racing accesses)
}

func parseRaceLogs(prefix string) []RaceReport {
	var out []RaceReport
	files, _ := filepath.Glob(prefix + ".*")
	for _, f := range files {
		b, err := os.ReadFile(f)
		if err == nil {
			out = append(out, parseRaceText(string(b))...)
		}
	}
	return out
}

func parseRaceText(text string) []RaceReport {
	var out []RaceReport
	parts := strings.Split(text, "WARNING: DATA RACE")
	for _, p := range parts[1:] {
		if i := strings.Index(p, "=================="); i >= 0 {
			p = p[:i]
		}
		r := RaceReport{Text: "WARNING: DATA RACE" + p}
		var cur []string
		for _, l := range strings.Split(p, "\n") {
			if strings.HasPrefix(l, "  ") && !strings.HasPrefix(l, "   ") {
				fn := strings.TrimSpace(l)
				if i := strings.LastIndex(fn, "("); i > 0 {
					fn = fn[:i]
				}
				cur = append(cur, fn)
			} else if strings.TrimSpace(l) == "" {
				if cur != nil {
					r.Stacks = append(r.Stacks, cur)
					cur = nil
				}
			}
		}
		if cur != nil {
			r.Stacks = append(r.Stacks, cur)
		}
		out = append(out, r)
	}
	return out
}

func repoFrame(stack []string, outermost bool) string {
	pick := ""
	for _, f := range stack {
		if strings.Contains(f, "refraction-networking/conjure") && !strings.Contains(f, "erif") {
			pick = f
			if !outermost {
				break
			}
		}
	}
	pick = strings.TrimPrefix(pick, "github.com/refraction-networking/conjure/")
	return pick
}

// Key identifies a race by the innermost repository frames of the two accesses (sorted).
func (r RaceReport) Key() string {
	a, b := "?", "?"
	if len(r.Stacks) > 0 {
		a = repoFrame(r.Stacks[0], false)
	}
	if len(r.Stacks) > 1 {
		b = repoFrame(r.Stacks[1], false)
	}
	if a > b {
		a, b = b, a
	}
	return a + "|" + b
}

// Summary is a compact description for the replay file.
func (r RaceReport) Summary() interface{} {
	var s []interface{}
	for i, st := range r.Stacks {
		if i >= 2 {
			break
		}
		s = append(s, st)
	}
	return s
}

// Has reports whether any of the two access stacks contains a frame matching one of subs.
func (r RaceReport) Has(subs ...string) bool {
	for i, st := range r.Stacks {
		if i >= 2 {
			break
		}
		for _, f := range st {
			for _, s := range subs {
				if strings.Contains(f, s) {
					return true
				}
			}
		}
	}
	return false
}

var _ = bytes.NewReader
