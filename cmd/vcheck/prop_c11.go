package main

import (
	"context"
	"encoding/json"
	"fmt"
	"os"
	"os/exec"
	"path/filepath"
	"regexp"
	"sort"
	"strconv"
	"strings"
	"sync"
	"time"
)

// C11 – no externally supplied bytes can crash a station or registrar process.
//
// Sixteen driver stages (one per repository package that owns an external entry point, plus the
// valid-tag flights against the connection handler, the bursts through the real ingest pipeline and the
// cold-start stage that re-executes itself as fresh station processes), each a
// child process running the seeded structure-aware generator against the real entry points with
// per-case panic capture, a crash-surviving flight recorder and a per-input watchdog.  The stages are
// independent processes, so this property runs them four at a time (from Post, each with a private
// RunCtx that is merged afterwards; the orchestrator's stage machinery itself is used unchanged).
// In the thorough tier Go's coverage-guided native fuzzer is then run on a scratch copy of the
// repository (outside /repo and /verif, removed afterwards) from the generator's own corpus; every
// input it finds is re-run through the normal driver path against the repository itself before it
// is reported.

var c11Stages = []Stage{
	{Name: "lib", Pkg: "./pkg/station/lib", Run: "^TestVerifC11Lib$", Drivers: []string{"lib"}, Exports: []string{"lib", "cdtls", "dnat"}, Netns: true},
	{Name: "coldstart", Pkg: "./pkg/station/lib", Run: "^TestVerifC11ColdStart$", Drivers: []string{"lib"}, Exports: []string{"lib", "cdtls", "dnat"}, Netns: true},
	{Name: "burst", Pkg: "./pkg/station/lib", Run: "^TestVerifC11Burst$", Drivers: []string{"lib"}, Exports: []string{"lib", "cdtls", "dnat"}, Netns: true},
	{Name: "app", Dir: "cmd/application", Pkg: ".", Run: "^TestVerifC11Handler$", Drivers: []string{"app"}, Exports: []string{"lib"}},
	{Name: "validflights", Dir: "cmd/application", Pkg: ".", Run: "^TestVerifC11ValidFlights$", Drivers: []string{"app"}, Exports: []string{"lib"}},
	{Name: "apireg", Pkg: "./pkg/regserver/apiregserver", Run: "^TestVerifC11API$", Drivers: []string{"apireg"}, Exports: []string{"regproc"}},
	{Name: "dnsreg", Pkg: "./pkg/regserver/dnsregserver", Run: "^TestVerifC11DNS$", Drivers: []string{"dnsreg"}, Exports: []string{"regproc", "responder"}},
	{Name: "regproc", Pkg: "./pkg/regserver/regprocessor", Run: "^TestVerifC11Regproc$", Drivers: []string{"regproc"}, Exports: []string{"lib"}},
	{Name: "responder", Pkg: "./pkg/registrars/dns-registrar/responder", Run: "^TestVerifC11Responder$", Drivers: []string{"responder"}},
	{Name: "transports", Pkg: "./pkg/transports", Run: "^TestVerifC11Transports$", Drivers: []string{"transports"}},
	{Name: "wiredns", Pkg: "./pkg/registrars/dns-registrar/dns", Run: "^TestVerifC11DNSWire$", Drivers: []string{"dns"}},
	{Name: "cdtls", Pkg: "./pkg/transports/connecting/dtls", Run: "^TestVerifC11Params$", Drivers: []string{"cdtls"}, Exports: []string{"dnat"}, Netns: true},
	{Name: "prefix", Pkg: "./pkg/transports/wrapping/prefix", Run: "^TestVerifC11Params$", Drivers: []string{"prefix"}},
	{Name: "min", Pkg: "./pkg/transports/wrapping/min", Run: "^TestVerifC11Params$", Drivers: []string{"min"}},
	{Name: "obfs4", Pkg: "./pkg/transports/wrapping/obfs4", Run: "^TestVerifC11Params$", Drivers: []string{"obfs4"}},
	{Name: "msgformat", Pkg: "./pkg/registrars/dns-registrar/msgformat", Run: "^TestVerifC11Msgformat$", Drivers: []string{"msgformat"}},
}

// c11Fuzz is one coverage-guided target: a Fuzz function of a driver file and the entry point whose
// signature its findings carry.  Execs is the execution-count bound (-fuzztime=Nx).
type c11Fuzz struct {
	Stage, Func, Entry string
	Execs              int
}

var c11FuzzTargets = []c11Fuzz{
	{"wiredns", "FuzzVerifC11DNSMessage", "dns.MessageFromWireFormat", 2000000},
	{"wiredns", "FuzzVerifC11DNSTXT", "dns.DecodeRDataTXT", 2000000},
	{"msgformat", "FuzzVerifC11Msgformat", "msgformat.RemoveRequestFormat/RemoveResponseFormat", 2000000},
	{"transports", "FuzzVerifC11UnmarshalAny", "transports.UnmarshalAnypbTo", 2000000},
	{"transports", "FuzzVerifC11TryReveal", "transports.Obfuscator.TryReveal", 1000000},
	{"min", "FuzzVerifC11ParamsMin", "min.ParseParams", 2000000},
	{"obfs4", "FuzzVerifC11ParamsObfs4", "obfs4.ParseParams", 2000000},
	{"prefix", "FuzzVerifC11ParamsPrefix", "prefix.ParseParams", 2000000},
	{"cdtls", "FuzzVerifC11ParamsDTLS", "dtls.ParseParams", 2000000},
	{"responder", "FuzzVerifC11Responder", "responder.RecvAndRespond", 1000000},
	{"regproc", "FuzzVerifC11Regproc", "regprocessor.RegisterBidirectional/Unidirectional", 1000000},
	{"dnsreg", "FuzzVerifC11DNS", "dnsregserver.processRequest", 1000000},
	{"apireg", "FuzzVerifC11APIBidirectional", "apiregserver.registerBidirectional", 1000000},
	{"apireg", "FuzzVerifC11APIRegister", "apiregserver.register", 1000000},
	{"lib", "FuzzVerifC11Lib", "station.parseRegMessage+ingestRegistration", 1000000},
	{"app", "FuzzVerifC11WrapMin", "min.WrapConnection", 1000000},
	{"app", "FuzzVerifC11WrapPrefix", "prefix.WrapConnection", 500000},
	{"app", "FuzzVerifC11WrapObfs4", "obfs4.WrapConnection", 500000},
	{"app", "FuzzVerifC11Handler", "application.handleNewTCPConn", 500000},
}

func init() {
	driverPkg["export/dnat"] = "pkg/dtls/dnat"
	driverPkg["export/responder"] = "pkg/registrars/dns-registrar/responder"
	for i := range c11Stages {
		c11Stages[i].TimeoutQ, c11Stages[i].TimeoutT = 15*time.Minute, 60*time.Minute
	}
	register(&Prop{
		ID: "C11", Level: "exploration", Floor: 400000,
		Rule: "a case = one byte string handed to one external entry point of the real code (ZMQ registration message -> parseRegMessage + ingestRegistration with " +
			"min/obfs4/prefix/DTLS enabled; first flight -> handleNewTCPConn and each transport's WrapConnection with registrations present; HTTP request -> " +
			"register / registerBidirectional behind a real net/http server; Noise-encrypted DNS request -> processRequest behind the real RecvAndRespond on UDP; " +
			"decoded wrapper -> RegisterBidirectional / RegisterUnidirectional / processBdReq / processC2SWrapper; (library version, Any) -> every transport's " +
			"station- and client-side ParseParams; datagram -> the responder's packet handling; DNS wire format, TXT RDATA and length framing decoders; obfuscated " +
			"tags -> TryReveal; plus the stage validflights: flights carrying a CORRECT tag for registrations of every shape the real ingest admits, see below), " +
			"produced by the seeded generator as a pure function of (seed, entry point, case index): valid protobufs with exactly one to three " +
			"things wrong, protobufs with every sub-message independently absent / empty / wrong-length / out-of-range / mistyped, raw mutations of valid " +
			"encodings (bit flips, truncations, splices, length-field tampering) and random bytes; evaluations = cases executed to completion under the oracle " +
			"(no panic in any goroutine, return within the per-input watchdog, an HTTP status line); distinct_nontrivial = distinct (entry point, generator " +
			"descriptor, outcome class) triples over non-empty inputs; validflights: a case = (admitted registration shape: transport x transport_params variant x " +
			"library version x generation x family x what the station stored, flight kind: genuine under every prefix id / + data / cut / damaged around the intact tag / " +
			"split at a cut / cross-transport identifier), sent to each WrapConnection and through handleNewTCPConn, and the stage is an ERROR unless every wrapping " +
			"transport returned a registration at least once; burst: a case = one message (valid with a client_lib_version nobody used before, or malformed) written in " +
			"bursts by four producers into the real HandleRegUpdates (default 300, 1, 16, 1000 workers) next to the stats print-and-reset, the expiry sweep and handler " +
			"lookups; coldstart: a case = one registration (admissible with its transport's parameters, position j of every goroutine carrying the same transport; a share of hostile ones) pushed through parseRegMessage + ingestRegistration by one of 24 goroutines released from a barrier in a FRESH station process (72 processes, thorough 1500) whose first parses they are - the child process must survive; dns.MessageFromWireFormat additionally gets names made of compression pointers into every offset of the datagram incl. header fields that read as pointers / labels (cycles of length 1-3 through the header, loops in earlier RDATA); the API stage additionally sends raw-socket requests whose Content-Length / chunking / headers vary independently of the body; thorough additionally counts coverage-guided fuzz executions per target (fuzz_executions)",
		Assumptions: []string{
			"operator-supplied configuration is fixed and valid (test phantom subnets, override subnets with known prefix ids, a ConnectingStats sink): configuration-only panics are C19's subject",
			"stand-ins: liveness stub, fake Redis, /dev/null as the tun device, loopback DTLS listener on a random port, DNS resolver that fails at once, recorder instead of the ZMQ socket; no MaxMind database exists here, so GeoIP lookups run against the empty database only",
			"a panic in a goroutine the code under test starts ends the child process and with it the stage: it is reported with the in-flight inputs from the flight recorder, the remaining cases of that stage are not executed",
			"a hang is reported only when the single input does not return within 60 s when re-run alone; a watchdog that fires without that is recorded as inconclusive",
			"the station's connection handler sleeps 5-10 s by design after a transport error; flights that trigger it are generated sparingly and excluded from the handler's fuzz target (they go to the WrapConnection targets)",
			"absence of findings after N executions is not absence of crashes",
		},
		Post: c11Post,
	})
}

func c11Sub(rc *RunCtx) *RunCtx {
	return &RunCtx{Prop: rc.Prop, Tier: rc.Tier, Seed: rc.Seed, Only: rc.Only, Keep: rc.Keep, Start: rc.Start, Work: rc.Work, Extra: map[string]interface{}{}}
}

func c11Merge(rc, sub *RunCtx) {
	rc.Violations = append(rc.Violations, sub.Violations...)
	rc.Errors = append(rc.Errors, sub.Errors...)
	rc.Incon = append(rc.Incon, sub.Incon...)
	rc.Samples = append(rc.Samples, sub.Samples...)
	rc.Exhaustive = append(rc.Exhaustive, sub.Exhaustive...)
	rc.Notes = append(rc.Notes, sub.Notes...)
	rc.StageInfo = append(rc.StageInfo, sub.StageInfo...)
	for k, v := range sub.Counts {
		rc.addCount(k, v)
	}
	for k, v := range sub.Distinct {
		rc.addDistinct(k, v)
	}
}

func c11Post(rc *RunCtx) {
	var stages []*Stage
	for i := range c11Stages {
		if rc.Only != "" && !strings.Contains(c11Stages[i].Name, rc.Only) {
			continue
		}
		stages = append(stages, &c11Stages[i])
	}
	// ---- the generator stages, four child processes at a time -----------------------------------
	subs := make([]*RunCtx, len(stages))
	sem := make(chan struct{}, 4)
	var wg sync.WaitGroup
	for i, st := range stages {
		wg.Add(1)
		go func(i int, st *Stage) {
			defer wg.Done()
			sem <- struct{}{}
			defer func() { <-sem }()
			subs[i] = c11Sub(rc)
			subs[i].runStage(st)
		}(i, st)
	}
	wg.Wait()
	for _, s := range subs {
		c11Merge(rc, s)
	}
	// one written-out sample per monitor first, so that the 12 kept in the evidence span the entry points
	sort.SliceStable(rc.Samples, func(i, j int) bool { return c11SampleRank(rc.Samples, i) < c11SampleRank(rc.Samples, j) })
	if !rc.thorough() || len(rc.Errors) > 0 {
		return
	}
	c11FuzzPhase(rc, stages)
}

func c11SampleRank(s []interface{}, i int) int {
	mon := fmt.Sprint(s[i].(map[string]interface{})["monitor"])
	n := 0
	for j := 0; j < i; j++ {
		if fmt.Sprint(s[j].(map[string]interface{})["monitor"]) == mon {
			n++
		}
	}
	return n
}

// ---- coverage-guided phase (thorough) ---------------------------------------------------------------

var c11ExecsRe = regexp.MustCompile(`execs: (\d+) `)

func c11Sanitize(s string) string { return regexp.MustCompile(`[^A-Za-z0-9_.-]`).ReplaceAllString(s, "_") }

func c11CopyFile(src, dst string) error {
	b, err := os.ReadFile(src)
	if err != nil {
		return err
	}
	if err := os.MkdirAll(filepath.Dir(dst), 0o755); err != nil {
		return err
	}
	return os.WriteFile(dst, b, 0o644)
}

// c11DecodeCorpusFile reads a "go test fuzz v1" file holding one []byte value.
func c11DecodeCorpusFile(path string) ([]byte, bool) {
	b, err := os.ReadFile(path)
	if err != nil {
		return nil, false
	}
	lines := strings.Split(strings.TrimSpace(string(b)), "\n")
	if len(lines) < 2 || !strings.HasPrefix(lines[0], "go test fuzz v1") {
		return nil, false
	}
	l := strings.TrimSpace(lines[1])
	if !strings.HasPrefix(l, "[]byte(") || !strings.HasSuffix(l, ")") {
		return nil, false
	}
	s, err := strconv.Unquote(l[len("[]byte(") : len(l)-1])
	if err != nil {
		return nil, false
	}
	return []byte(s), true
}

func c11FuzzPhase(rc *RunCtx, stages []*Stage) {
	byName := map[string]*Stage{}
	for _, st := range stages {
		byName[st.Name] = st
	}
	scratch, err := os.MkdirTemp("/tmp", "verif-c11-")
	if err != nil {
		rc.Errors = append(rc.Errors, "fuzz phase: cannot create the scratch directory: "+err.Error())
		return
	}
	defer os.RemoveAll(scratch)
	if out, err := exec.Command("rsync", "-a", "--exclude", ".git", repoDir+"/", scratch+"/").CombinedOutput(); err != nil {
		rc.Errors = append(rc.Errors, fmt.Sprintf("fuzz phase: rsync of the repository failed: %v %s", err, out))
		return
	}
	// the overlay of every stage becomes real files in the copy (the fuzzer writes crashers next to the package)
	for _, st := range stages {
		ov, err := rc.overlay(st)
		if err != nil {
			rc.Errors = append(rc.Errors, "fuzz phase: "+err.Error())
			return
		}
		var m struct{ Replace map[string]string }
		b, _ := os.ReadFile(ov)
		json.Unmarshal(b, &m)
		for dst, src := range m.Replace {
			if err := c11CopyFile(src, filepath.Join(scratch, strings.TrimPrefix(dst, repoDir))); err != nil {
				rc.Errors = append(rc.Errors, "fuzz phase: "+err.Error())
				return
			}
		}
	}
	fuzzOut := filepath.Join(rc.Work, "fuzz-found")
	replay := filepath.Join(rc.Work, "fuzz-replay")
	os.MkdirAll(fuzzOut, 0o755)

	// build one instrumented binary per stage that has targets
	bins := map[string]string{}
	var mu sync.Mutex
	var wg sync.WaitGroup
	sem := make(chan struct{}, 3)
	for _, st := range stages {
		has := false
		for _, ft := range c11FuzzTargets {
			if ft.Stage == st.Name {
				has = true
			}
		}
		if !has {
			continue
		}
		wg.Add(1)
		go func(st *Stage) {
			defer wg.Done()
			sem <- struct{}{}
			defer func() { <-sem }()
			bin := filepath.Join(rc.Work, st.Name+".fuzz.test")
			cmd := exec.Command("go", "test", "-c", "-tags", "verif", "-vet=off", "-fuzz", "^FuzzVerifC11", "-o", bin, st.Pkg)
			cmd.Dir = filepath.Join(scratch, st.Dir)
			cmd.Env = baseEnv()
			out, err := cmd.CombinedOutput()
			mu.Lock()
			defer mu.Unlock()
			if err != nil {
				rc.Errors = append(rc.Errors, fmt.Sprintf("fuzz phase: instrumented build of %s failed (infrastructure): %v\n%s", st.Name, err, tail(string(out), 2000)))
				return
			}
			bins[st.Name] = bin
		}(st)
	}
	wg.Wait()
	if len(rc.Errors) > 0 {
		return
	}

	// run the targets, three at a time, four fuzz workers each
	scale := 1.0
	if s := os.Getenv("VERIF_C11_FUZZ_SCALE"); s != "" {
		if v, err := strconv.ParseFloat(s, 64); err == nil && v > 0 {
			scale = v
		}
	}
	for _, ft := range c11FuzzTargets {
		st, ok := byName[ft.Stage]
		if !ok {
			continue
		}
		wg.Add(1)
		go func(ft c11Fuzz, st *Stage) {
			defer wg.Done()
			sem <- struct{}{}
			defer func() { <-sem }()
			n := int(float64(ft.Execs) * scale)
			pkgDir := filepath.Join(scratch, st.Dir, strings.TrimPrefix(st.Pkg, "./"))
			cache := filepath.Join(rc.Work, "fuzzcache-"+ft.Func)
			os.MkdirAll(cache, 0o755)
			ctx, cancel := context.WithTimeout(context.Background(), 12*time.Minute)
			defer cancel()
			args := []string{"-test.run", "^$", "-test.fuzz", "^" + ft.Func + "$", "-test.fuzztime", fmt.Sprintf("%dx", n), "-test.fuzzcachedir", cache, "-test.parallel", "4", "-test.timeout", "30m"}
			var cmd *exec.Cmd
			if st.Netns {
				cmd = exec.CommandContext(ctx, "unshare", append([]string{"-n", "sh", "-c", "ip link set lo up 2>/dev/null; exec \"$0\" \"$@\"", bins[st.Name]}, args...)...)
			} else {
				cmd = exec.CommandContext(ctx, bins[st.Name], args...)
			}
			cmd.Dir = pkgDir
			cmd.Env = append(baseEnv(), fmt.Sprintf("VERIF_SEED=%d", rc.Seed), "VERIF_TIER="+rc.Tier, "VERIF_OUT="+rc.Work, "VERIF_C11_FUZZ_OUT="+fuzzOut, "VERIF_DIR="+verifDir, "VERIF_REPO="+scratch)
			t0 := time.Now()
			out, err := cmd.CombinedOutput()
			os.WriteFile(filepath.Join(rc.Work, "fuzz-"+ft.Func+".out"), out, 0o644)
			execs := int64(0)
			if ms := c11ExecsRe.FindAllStringSubmatch(string(out), -1); len(ms) > 0 {
				execs, _ = strconv.ParseInt(ms[len(ms)-1][1], 10, 64)
			}
			mu.Lock()
			defer mu.Unlock()
			rc.addCount("fuzz_executions", execs)
			rc.addCount("fuzz_executions["+ft.Entry+"]", execs)
			rc.StageInfo = append(rc.StageInfo, map[string]interface{}{"fuzz_target": ft.Func, "entry": ft.Entry, "bound_execs": n, "execs": execs, "wall_s": time.Since(t0).Seconds(), "failed": err != nil})
			if ctx.Err() != nil {
				rc.Notes = append(rc.Notes, fmt.Sprintf("fuzz target %s stopped by its 12 min wall-clock cap after %d of %d executions", ft.Func, execs, n))
			}
			// crashers the fuzzer wrote itself (worker died / target failed): decode into the replay directory
			files, _ := filepath.Glob(filepath.Join(pkgDir, "testdata", "fuzz", ft.Func, "*"))
			for i, f := range files {
				if b, ok := c11DecodeCorpusFile(f); ok {
					c11CopyBytes(b, filepath.Join(replay, c11Sanitize(ft.Entry), fmt.Sprintf("fuzzer-crasher-%d.bin", i)))
					rc.addCount("fuzz_crashers_written_by_the_fuzzer", 1)
				}
			}
			if err != nil && len(files) == 0 && ctx.Err() == nil {
				rc.Errors = append(rc.Errors, fmt.Sprintf("fuzz phase: target %s failed without leaving a crasher (infrastructure): %v\n%s", ft.Func, err, tail(string(out), 1500)))
			}
		}(ft, st)
	}
	wg.Wait()

	// inputs on which the target recovered a panic (saved by the kit, at most 3 per signature)
	found, _ := filepath.Glob(filepath.Join(fuzzOut, "*", "*.bin"))
	for _, f := range found {
		rc.addCount("fuzz_inputs_with_recovered_panic", 1)
		c11CopyFile(f, filepath.Join(replay, filepath.Base(filepath.Dir(f)), "recovered-"+filepath.Base(f)))
	}
	// every finding of the fuzzer goes through the normal driver path, against the repository itself
	entries, _ := os.ReadDir(replay)
	if len(entries) == 0 {
		return
	}
	need := map[string]bool{}
	for _, e := range entries {
		for _, ft := range c11FuzzTargets {
			if c11Sanitize(ft.Entry) == e.Name() {
				need[ft.Stage] = true
			}
		}
	}
	for _, st := range stages {
		if !need[st.Name] {
			continue
		}
		rs := *st
		rs.Name = st.Name + "-fuzzreplay"
		rs.Env = append(append([]string{}, st.Env...), "VERIF_C11_REPLAY="+replay)
		sub := c11Sub(rc)
		sub.runStage(&rs)
		c11Merge(rc, sub)
	}
}

func c11CopyBytes(b []byte, dst string) {
	os.MkdirAll(filepath.Dir(dst), 0o755)
	os.WriteFile(dst, b, 0o644)
}
