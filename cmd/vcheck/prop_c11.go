package main

import "time"

// C11 – no externally supplied bytes can crash a station or registrar process.
func init() {
	driverPkg["export/dnat"] = "pkg/dtls/dnat"
	driverPkg["export/responder"] = "pkg/registrars/dns-registrar/responder"
	register(&Prop{
		ID: "C11", Level: "exploration", Floor: 100000,
		Rule: "TODO",
		Stages: []Stage{
			{Name: "lib", Pkg: "./pkg/station/lib", Run: "^TestVerifC11Lib$", Drivers: []string{"lib"}, Exports: []string{"lib", "cdtls", "dnat"}, Netns: true, TimeoutQ: 10 * time.Minute, TimeoutT: 40 * time.Minute},
			{Name: "regproc", Pkg: "./pkg/regserver/regprocessor", Run: "^TestVerifC11Regproc$", Drivers: []string{"regproc"}, Exports: []string{"lib"}, TimeoutQ: 10 * time.Minute, TimeoutT: 40 * time.Minute},
			{Name: "apireg", Pkg: "./pkg/regserver/apiregserver", Run: "^TestVerifC11API$", Drivers: []string{"apireg"}, Exports: []string{"regproc"}, TimeoutQ: 10 * time.Minute, TimeoutT: 40 * time.Minute},
			{Name: "dnsreg", Pkg: "./pkg/regserver/dnsregserver", Run: "^TestVerifC11DNS$", Drivers: []string{"dnsreg"}, Exports: []string{"regproc", "responder"}, TimeoutQ: 10 * time.Minute, TimeoutT: 40 * time.Minute},
			{Name: "app", Dir: "cmd/application", Pkg: ".", Run: "^TestVerifC11Handler$", Drivers: []string{"app"}, Exports: []string{"lib"}, TimeoutQ: 10 * time.Minute, TimeoutT: 60 * time.Minute},
			{Name: "min", Pkg: "./pkg/transports/wrapping/min", Run: "^TestVerifC11Params$", Drivers: []string{"min"}, TimeoutQ: 10 * time.Minute, TimeoutT: 40 * time.Minute},
			{Name: "obfs4", Pkg: "./pkg/transports/wrapping/obfs4", Run: "^TestVerifC11Params$", Drivers: []string{"obfs4"}, TimeoutQ: 10 * time.Minute, TimeoutT: 40 * time.Minute},
			{Name: "prefix", Pkg: "./pkg/transports/wrapping/prefix", Run: "^TestVerifC11Params$", Drivers: []string{"prefix"}, TimeoutQ: 10 * time.Minute, TimeoutT: 40 * time.Minute},
			{Name: "cdtls", Pkg: "./pkg/transports/connecting/dtls", Run: "^TestVerifC11Params$", Drivers: []string{"cdtls"}, Exports: []string{"dnat"}, Netns: true, TimeoutQ: 10 * time.Minute, TimeoutT: 40 * time.Minute},
			{Name: "transports", Pkg: "./pkg/transports", Run: "^TestVerifC11Transports$", Drivers: []string{"transports"}, TimeoutQ: 10 * time.Minute, TimeoutT: 40 * time.Minute},
			{Name: "msgformat", Pkg: "./pkg/registrars/dns-registrar/msgformat", Run: "^TestVerifC11Msgformat$", Drivers: []string{"msgformat"}, TimeoutQ: 10 * time.Minute, TimeoutT: 40 * time.Minute},
			{Name: "dns", Pkg: "./pkg/registrars/dns-registrar/dns", Run: "^TestVerifC11DNSWire$", Drivers: []string{"dns"}, TimeoutQ: 10 * time.Minute, TimeoutT: 40 * time.Minute},
			{Name: "responder", Pkg: "./pkg/registrars/dns-registrar/responder", Run: "^TestVerifC11Responder$", Drivers: []string{"responder"}, TimeoutQ: 10 * time.Minute, TimeoutT: 40 * time.Minute},
		},
	})
}
