package main

import "time"

func init() {
	exports := []string{"dtls", "cdtls", "phantoms"}
	register(&Prop{
		ID: "C01", Level: "exploration", Floor: 3000,
		Rule: "a case = (shared secret, library version 0-4, generation known/unknown, family, transport, transport parameters, subnet configuration); " +
			"each case runs the real station path (parseRegMessage -> NewRegistrationC2SWrapper), the in-repo client code and an independent reference, and compares the three; " +
			"distinct_nontrivial = distinct case descriptors for which the station produced a registration and every derived value (address, port, identifier / keys) " +
			"was compared against the reference or frozen vector and against the client; a dual-stack case (ONE message with both families, both registrations observed in both " +
			"identifier orders) contributes one descriptor per family",
		Assumptions: []string{
			"the published algorithm is pinned by a reference written for this check and by vectors frozen from the pinned tree; if the pinned tree already disagreed with deployed clients nothing here would know",
			"for library versions < 4 and for fixed secrets the client-side seed comes from the reference HKDF (the repository has no client entry point that takes a chosen secret); " +
				"library-version-4 cases with client-generated secrets use core.GenerateClientSharedKeys",
			"configurations are well-formed (1-5 groups, positive weights, networks without leading zero bytes); malformed ones are C14's subject",
			"sort.Slice keeps equal-weight groups in configuration order for <= 12 groups (insertion sort); the reference sorts stably",
		},
		Stages: []Stage{
			// one process: (1) frozen vectors + the repository's hard-coded expectations, (2) seeded random cases
			{Name: "derive", Pkg: "./pkg/station/lib", Run: "^TestVerifC01(Vectors|Random)$", Drivers: []string{"lib"}, Exports: exports,
				TimeoutQ: 10 * time.Minute, TimeoutT: 40 * time.Minute},
		},
	})
}
