package main

import "time"

func init() {
	register(&Prop{
		ID: "C20", Level: "fault_enumeration", Floor: 150,
		Rule: "an evaluation = one SIGKILL of the storing process, one SIGKILL injected by strace at a chosen system call of the storing thread, one death by " +
			"SIGXFSZ in mid-write at a chosen file offset, or one " +
			"failure actually delivered to a store (strace error injection, read-only remount, full tmpfs, vanished directory, fd / file-size limit, " +
			"unmarshalable configuration), each followed by the comparison of the ClientConf file with {state before the store, configuration being stored} " +
			"(and, for failed whole-ClientConf stores, of the in-memory configuration with its snapshot). Directories are not tidied after a death: the next " +
			"process's first store is a small one next to the orphaned temp file and is judged the same way (counter stale_temp_present_before_small_store). distinct_nontrivial = distinct crash states reached by " +
			"kills that landed inside a store (setter, size class, temp-file length / renamed) + distinct (setter, size, system call, index) crash points inside " +
			"stores + distinct (setter, size, offset) mid-write deaths + distinct (sub-stage, setter) aftermath stores with a stale temp present + distinct (failure kind, setter, size, errno) failures delivered",
		Assumptions: []string{
			"process death is modelled by SIGKILL: the page cache survives, so durability across power loss (fsync) is outside the statement and outside the monitor",
			"strace delivers SIGKILL on entering the chosen system call; the call itself may or may not have taken effect (both are legitimate crash points)",
			"the file system honours rename(2) atomicity (ext4 and tmpfs here)",
		},
		Stages: []Stage{
			{Name: "atomic", Pkg: "./pkg/client/assets", Run: "^TestVerifC20$", Drivers: []string{"assets"}, NoCrashViol: true, TimeoutQ: 10 * time.Minute, TimeoutT: 40 * time.Minute},
		},
	})
}
