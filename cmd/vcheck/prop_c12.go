package main

import "time"

func init() {
	register(&Prop{
		ID: "C12", Level: "exploration", Floor: 3000,
		Rule: "a case = one generated client request (transport, library version, families, parameters incl. malformed ones, overrides allowed/disabled/unset, forged " +
			"registration_response / RegRespBytes / RegRespSignature, source and address variants) sent through the real RegisterBidirectional / RegisterUnidirectional of a " +
			"RegProcessor built by the real constructors (authenticated or not, parameter-override set, weighted override subnets, exclusions, percentages) over a generated " +
			"phantom-subnet file; evaluations = requests the registrar ACCEPTED (refusals are counted separately and decide nothing), each passing through all oracles " +
			"(returned vs forwarded, real station ingest of the forwarded bytes, forged-field, disable-flag, substitution/exclusion); distinct_nontrivial = distinct " +
			"(transport, lib version, families, disable flag, parameter kind, forged-field set, auth, override set, enforcement, substituted, excluded, params overridden, " +
			"client address family, number of station registrations, position of the own phantom relative to nested exclusions, send-fault pattern) tuples among accepted requests; " +
			"the weighted-choice verdict of a configuration is only drawn after >= 400 observed substitutions. 1 in 6 general requests runs under a send-fault plan on the registrar's socket " +
			"(ETERM/EINVAL/EAGAIN/EINTR/EHOSTUNREACH/EFSM/generic; always, once, k times, short count): such a case is an evaluation whatever the outcome (told-the-client => a message was ACCEPTED). " +
			"Stage concurrent: 16 goroutines x 400 (thorough 4000) registrations with distinct secrets per round on ONE processor; an evaluation = one successful call matched against the multiset of accepted messages. " +
			"Stages api and dns repeat the told=>accepted and returned-vs-forwarded oracles through the real HTTP handlers / DNSRegServer.processRequest (half of the requests faulted). " +
			"Stage dns also runs the whole DNS front end (real DNSRegServer + Responder on a loopback UDP socket, client = the real requester.Requester) under registrar configurations with operator " +
			"prefix overrides of 16 ... 3000 bytes (file-based and fixed; dense around 900-1300 bytes where the answer stops fitting one DNS reply): a case = one registration, an evaluation = one the " +
			"registrar processed; the returned-vs-forwarded oracle is applied to the DnsResponse the CLIENT decrypted (an empty / absent answer tells the client nothing and decides nothing)",
		Assumptions: []string{
			"the station is a real lib.RegistrationManager (both families enabled, min/obfs4/prefix registered) fed through parseRegMessage; ingest stages after parsing (liveness, blocklists) are other properties",
			"phantom subnets with a leading zero byte, zero total weight and override subnets of /0 are not generated (selector arithmetic is C14's subject)",
			"'substituted' means: differs from what the configured selector derives for the client; a substitute that happens to equal the client's own phantom is invisible",
			"a send counts as accepted iff SendBytes returned a nil error (zmq sends are atomic; a short count with nil error is treated as accepted)",
			"a correct weighted choice misses a subnet holding >= 10 % of the weight in >= 400 independent substitutions with probability < 1e-18 per subnet",
		},
		Stages: []Stage{
			{Name: "registrar", Pkg: "./pkg/regserver/regprocessor", Run: "^TestVerifC12$", Drivers: []string{"regproc"}, Exports: []string{"lib"}, TimeoutQ: 10 * time.Minute, TimeoutT: 40 * time.Minute},
			{Name: "concurrent", Pkg: "./pkg/regserver/regprocessor", Run: "^TestVerifC12Concurrent$", Drivers: []string{"regproc"}, Exports: []string{"lib"}, TimeoutQ: 10 * time.Minute, TimeoutT: 40 * time.Minute},
			{Name: "api", Pkg: "./pkg/regserver/apiregserver", Run: "^TestVerifC12API$", Drivers: []string{"apireg"}, Exports: []string{"regproc"}, TimeoutQ: 10 * time.Minute, TimeoutT: 40 * time.Minute},
			{Name: "dns", Pkg: "./pkg/regserver/dnsregserver", Run: "^TestVerifC12DNS(Large)?$", Drivers: []string{"dnsreg"}, Exports: []string{"regproc", "responder"}, TimeoutQ: 10 * time.Minute, TimeoutT: 40 * time.Minute},
		},
	})
}
