package main

import (
	"strings"
	"time"
)

func init() {
	register(&Prop{
		ID: "C19", Level: "exploration", Floor: 3000,
		Rule: "a case = one configuration file (TOML text: every optional key independently unset / valid / zero / malformed, the shipped " +
			"app_config.toml verbatim and with single-key perturbations, sparse and broken files) loaded by the real ParseConfig, plus a plan of " +
			"4 (quick) / 8 (thorough) reload steps mixing valid, malformed and unreadable configuration and subnet files, plus 2 (12) part-wise chains of 35 reloads " +
			"in which every step changes policies and subnets while one part (GeoIP / subnets / configuration) is broken; evaluations = files put " +
			"through the start-up sequence (+ liveness configurations and connManager traffic scripts of the two side stages, + the start-up " +
			"configurations of the concurrent housekeeping stages, whose real work is counted separately: reports, new statistics-map keys, overlapping ingests); " +
			"distinct_nontrivial = distinct (key-state vector, reload plan) pairs of ACCEPTED configurations that ran the full housekeeping " +
			"round and at least one reload step",
		Assumptions: []string{
			"reload is applied by the driver with the five lines of cmd/application/main.go:176-191 (ParseConfig; OnReload only on success); main()'s own signal loop is not executed",
			"the parts of a reload are independent as main.go + OnReload apply them: once ParseConfig succeeded the address policies are replaced whatever happens to the subnets file or the GeoIP databases, and the subnets are replaced iff their file loads; when ParseConfig fails nothing is demanded of the subnets but 'old or new'",
			"whether a subnets / GeoIP part 'loaded without error' is judged by calling the repository's own loader on the same file",
			"covert_blocklist_public_addrs depends on the machine's interfaces: only differential and no-panic checks are applied to it",
			"host names are resolved by an in-process scripted resolver (every name -> 198.51.100.7)",
		},
		Stages: []Stage{
			{Name: "lib", Pkg: "./pkg/station/lib", Run: "^TestVerifC19Config$", Drivers: []string{"lib"}, TimeoutQ: 10 * time.Minute, TimeoutT: 40 * time.Minute},
			{Name: "liveness", Pkg: "./pkg/station/liveness", Run: "^TestVerifC19LivenessStats$", Drivers: []string{"liveness"}, TimeoutQ: 10 * time.Minute, TimeoutT: 20 * time.Minute},
			{Name: "liveness-concurrent", Pkg: "./pkg/station/liveness", Run: "^TestVerifC19LivenessConcurrent$", Drivers: []string{"liveness"}, Race: true,
				RaceFilter: c19StatsRace, TimeoutQ: 10 * time.Minute, TimeoutT: 20 * time.Minute},
			// own child processes: the failure these look for (concurrent map iteration and map write) is process-fatal
			{Name: "housekeeping-concurrent", Pkg: "./pkg/station/lib", Run: "^TestVerifC19Concurrent$", Drivers: []string{"lib"}, TimeoutQ: 12 * time.Minute, TimeoutT: 40 * time.Minute},
			{Name: "housekeeping-concurrent-race", Pkg: "./pkg/station/lib", Run: "^TestVerifC19Concurrent$", Drivers: []string{"lib"}, Race: true, Env: []string{"VERIF_C19_RACE=1"},
				RaceFilter: c19StatsRace, TimeoutQ: 12 * time.Minute, TimeoutT: 40 * time.Minute},
			{Name: "app", Dir: "cmd/application", Pkg: ".", Run: "^TestVerifC19ConnManager$", Drivers: []string{"app"}, Exports: []string{"lib"}, TimeoutQ: 10 * time.Minute, TimeoutT: 30 * time.Minute},
		},
	})
}

// c19StatsRace attributes a race report to C19 when one of the two racing accesses happens in the
// statistics code of the station (reporters, counters, the registry) or on the reload path.
func c19StatsRace(r RaceReport) bool {
	stats := []string{
		"station/lib.(*RegistrationStats).", "station/lib.(*RegistrationManager).PrintAndReset", "station/lib.(*Stats).", "station/lib.(*ProxyStats).",
		"station/lib.(*ZMQIngester).PrintAndReset", "station/lib.(*ZMQIngester).Reset", "station/lib.(*ZMQIngester).add",
		"station/liveness.(*stats).", "station/liveness.(*CachedLivenessTester).print", "station/liveness.(*CachedLivenessTester).Print",
		"station/lib.(*RegistrationManager).OnReload", "station/lib.ParseConfig", "station/lib.(*RegConfig).ParseBlocklists",
	}
	for i, st := range r.Stacks {
		if i >= 2 {
			break
		}
		for _, f := range st {
			if strings.Contains(f, "erif") {
				continue
			}
			for _, s := range stats {
				if strings.Contains(f, s) {
					return true
				}
			}
		}
	}
	return false
}
