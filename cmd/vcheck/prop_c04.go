package main

import "time"

func init() {
	register(&Prop{
		ID: "C04", Level: "exploration", Floor: 1000,
		Rule: "a session = (transport/prefix id/flush policy/port mode, cut positions over the first flight (+3 bytes), early-data size, other registrations on the phantom); " +
			"the flight is produced by the real client transport, re-segmented with paced delivery onto a scripted conn and driven through the real handleNewTCPConn + Proxy to a real loopback covert; " +
			"every 1-cut is enumerated for every min/prefix configuration, every 2-cut for the listed ones; distinct_nontrivial = distinct session descriptors",
		Assumptions: []string{
			"segmentation is emulated at the net.Conn boundary (each Read returns at most one segment); the kernel is not in the loop",
			"obfs4: the client cannot send early data before the server's reply, so that dimension is empty",
		},
		Stages: []Stage{
			{Name: "minprefix", Dir: "cmd/application", Pkg: ".", Run: "^TestVerifC04MinPrefix$", Drivers: []string{"app"}, Exports: []string{"lib"}, Files: []string{"_c08_"}, HangIsViol: true, TimeoutQ: 15 * time.Minute, TimeoutT: 240 * time.Minute},
			{Name: "obfs4", Dir: "cmd/application", Pkg: ".", Run: "^TestVerifC04Obfs4$", Drivers: []string{"app"}, Exports: []string{"lib"}, Files: []string{"_c08_"}, HangIsViol: true, TimeoutQ: 15 * time.Minute, TimeoutT: 90 * time.Minute},
			{Name: "concurrent", Dir: "cmd/application", Pkg: ".", Run: "^TestVerifC04Concurrent$", Drivers: []string{"app"}, Exports: []string{"lib"}, Files: []string{"_c08_"}, HangIsViol: true, TimeoutQ: 15 * time.Minute, TimeoutT: 60 * time.Minute},
			{Name: "obfs4lengths", Dir: "cmd/application", Pkg: ".", Run: "^TestVerifC04Obfs4Lengths$", Drivers: []string{"app"}, Exports: []string{"lib"}, Files: []string{"_c08_"}, HangIsViol: true, TimeoutQ: 15 * time.Minute, TimeoutT: 90 * time.Minute},
		},
	})
}
