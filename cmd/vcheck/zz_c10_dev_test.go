package main

import (
	"os"
	"testing"
)

func TestC10DevShim(t *testing.T) {
	w := os.Getenv("C10_DEV_WORK")
	os.MkdirAll(w, 0o755)
	repo := "/repo"
	if v := os.Getenv("VERIF_REPO"); v != "" {
		repo = v
	}
	sh, err := c10BuildShim(repo, "/verif", w)
	if err != nil {
		t.Fatal(err)
	}
	t.Logf("%+v", sh)
}
