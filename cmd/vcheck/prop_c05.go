package main

import "time"

func init() {
	register(&Prop{
		ID: "C05", Level: "fault_enumeration", Floor: 1000,
		Rule: "a case = (read chunking of each side, covert ending, 0-2 injected faults); every single fault of the universe " +
			"(kind × call index × side) is enumerated, pairs are drawn from the seeded PRNG; distinct_nontrivial = distinct case descriptors executed " +
			"(each runs both relay directions of the real halfPipe / Proxy to completion and passes through all monitors)",
		Assumptions: []string{
			"scripted conns return errors shaped as package net shapes them; real kernels may combine faults differently",
			"teardown bounds (20-60 s) are generous wall-clock watchdogs; only a stable 'never closed / never returned' state is reported",
		},
		Stages: []Stage{
			{Name: "halfpipe", Pkg: "./pkg/station/lib", Run: "^TestVerifC05HalfPipe$", Drivers: []string{"lib"}, HangIsViol: true, TimeoutQ: 10 * time.Minute, TimeoutT: 40 * time.Minute},
			{Name: "proxy", Pkg: "./pkg/station/lib", Run: "^TestVerifC05Proxy$", Drivers: []string{"lib"}, HangIsViol: true, TimeoutQ: 10 * time.Minute, TimeoutT: 40 * time.Minute},
		},
	})
}
