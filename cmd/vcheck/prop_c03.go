package main

import "time"

func init() {
	register(&Prop{
		ID: "C03", Level: "exploration", Floor: 1000,
		Rule: "a probe = (registry on the probed phantom ∈ {none, one min, many mixed, obfs4 only, prefix only}, byte stream kind ∈ {random at every threshold length, " +
			"protocol look-alike, static prefix + garbage, genuine flight with one tag bit flipped}, segmentation, ending ∈ {silent until deadline, EOF, RST}); " +
			"each is driven through the real handleNewTCPConn on a scripted conn with a virtual deadline; distinct_nontrivial = distinct (registry, kind, length, cuts, ending) tuples",
		Assumptions: []string{
			"the handler's return is the close (handleNewConn defers Close); the conn-level monitor does not see kernel behaviour (thorough adds real TCP in a netns)",
			"the lower bound of the deadline is decided only where scheduling delay cannot explain the shortfall (three-valued)",
			"probes that contain a VALID tag/mark (e.g. obfs4 mark valid, MAC broken) are outside the property's domain and are not generated",
		},
		Stages: []Stage{
			{Name: "probes", Dir: "cmd/application", Pkg: ".", Run: "^TestVerifC03(Probes|MacFlip)$", Drivers: []string{"app"}, Exports: []string{"lib"}, HangIsViol: true, TimeoutQ: 10 * time.Minute, TimeoutT: 60 * time.Minute},
			{Name: "realtcp", Dir: "cmd/application", Pkg: ".", Run: "^TestVerifC03RealTCP$", Drivers: []string{"app"}, Exports: []string{"lib"}, Netns: true, HangIsViol: true, TimeoutQ: 10 * time.Minute, TimeoutT: 10 * time.Minute},
		},
	})
}
