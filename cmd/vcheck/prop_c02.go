package main

import "time"

func init() {
	register(&Prop{
		ID: "C02", Level: "exploration", Floor: 2000,
		Rule: "a case = (registry state built by a random register / track-only / use / age+sweep sequence over 3 phantoms × 4 secrets × 3 transports, flight with ground truth by construction: " +
			"genuine on its own phantom, replay on the other phantoms, same secret as another transport or another prefix id, every/sampled bit flip of the tag (min 256, prefix 510, obfs4 representative+mark+MAC+padding sample), truncations, random blobs at threshold lengths); " +
			"level 1 presents it to every enabled transport's WrapConnection, level 2 to the real handleNewTCPConn with a covert dial recorder; distinct_nontrivial = distinct (world, flight) pairs",
		Assumptions: []string{
			"an independent reference map of the op sequence (10 min unused / 6 h used lifetimes) says which registrations are valid; pairs of (same secret, same phantom, two transports) are kept out of worlds that sweep, because their expiry is C08's subject",
			"a crafted flight that carries the registered transport's own identifier in another transport's framing proves knowledge of the secret and is matched to exactly that registration; the statement does not forbid it and the oracle does not flag it",
			"a replayed genuine flight on the SAME phantom while the registration is valid is an accept (tags are static by design)",
		},
		Stages: []Stage{
			{Name: "flights", Dir: "cmd/application", Pkg: ".", Run: "^TestVerifC02$", Drivers: []string{"app"}, Exports: []string{"lib"}, Files: []string{"_c08_"}, HangIsViol: true, TimeoutQ: 15 * time.Minute, TimeoutT: 90 * time.Minute},
			{Name: "midclass", Dir: "cmd/application", Pkg: ".", Run: "^TestVerifC02MidClassification$", Drivers: []string{"app"}, Exports: []string{"lib"}, Files: []string{"_c08_"}, HangIsViol: true, TimeoutQ: 10 * time.Minute, TimeoutT: 30 * time.Minute},
		},
	})
}
