package main

import (
	"strings"
	"time"
)

func init() {
	register(&Prop{
		ID: "C13", Level: "exploration", Floor: 200,
		Rule: "monitor 1: a schedule = (k requests of kinds ∈ {v4, v6, dual}, m reloads, one order of the events {release request i from the yield point between the two address selections, start reload j}); " +
			"after each event the driver waits (stack scan) until the goroutine it touched is done or blocked in a synchronisation wait; every order is enumerated for k ≤ 2 (quick) / 3 (thorough), m ≤ 2; " +
			"each reload reads a valid file or a missing / truncated one (which must change nothing), and after every schedule one fresh request of each kind must be answered from a set a valid reload published; " +
			"monitor 2: free-running stress (8 requesters × 2 reloaders, blocks of serialised reloads that mix in missing / truncated files) under the race detector; " +
			"monitor 3: the registrar's real main() in-process with its SIGHUP loop; the subnet file is a FIFO (a fresh one per reload), so the harness knows when a reload has begun and decides when it ends: SIGHUPs are sent before and *during* a running reload while API requests run throughout; " +
			"a SIGHUP sent during a reload must be followed by another reload (loss is declared only when the signal goroutine and os/signal's loop are idle on 40 consecutive stack scans and nothing began, re-confirmed after 3 s), and once quiet, requests must be answered from the set published last. " +
			"Oracles: every request and reload completes (a stable all-blocked state = deadlock), no request panics, every response lies wholly in one published subnet set. " +
			"distinct_nontrivial = distinct schedules executed + distinct (kind, set) outcomes seen under stress",
		Assumptions: []string{
			"interleavings are enumerated at the granularity of the verifhook.Yield point between the two selections plus lock-wait states; finer interleavings are left to the free-running stress stage and the race detector",
			"a deadlock is reported only when every remaining goroutine of the scenario is parked in a sync wait on repeated stack scans, never on a bare timeout",
		},
		Stages: []Stage{
			{Name: "schedules", Pkg: "./pkg/regserver/regprocessor", Run: "^TestVerifC13Schedules$", Drivers: []string{"regproc"}, HangIsViol: true, TimeoutQ: 10 * time.Minute, TimeoutT: 40 * time.Minute},
			{Name: "stress", Pkg: "./pkg/regserver/regprocessor", Run: "^TestVerifC13Stress$", Drivers: []string{"regproc"}, Race: true, HangIsViol: true, TimeoutQ: 10 * time.Minute, TimeoutT: 40 * time.Minute,
				RaceFilter: func(r RaceReport) bool { return r.Has("regprocessor.") && !strings.Contains(r.Key(), "?|?") }},
			{Name: "sighup", Dir: "cmd/registration-server", Pkg: ".", Run: "^TestVerifC13Sighup$", Drivers: []string{"regserver"}, Netns: true, HangIsViol: true, SignalDeathIsViol: []string{"hangup"}, TimeoutQ: 10 * time.Minute, TimeoutT: 40 * time.Minute},
		},
	})
}
